"""C15 — unit-rewriting helpers preserve the physical quantity.

Theorems: coq/Properties/C15.v over coq/Model/Rewrite.v (proofs in coq/Proofs/RewriteProofs.v).
Correspondence K: coq/Model/RewriteRun.v (`c15_ok`), evaluated inside Coq on the registry that
T1 regenerates from /repo.  Oracles (this file) decide the property statement on pint alone:

  * same dimensionality and same physical value before / after every helper
    (to_root_units, to_base_units, to_reduced_units, to_compact, to_preferred, ito_ twins,
    `*` and `/` under auto_reduce_dimensions / autoconvert_to_preferred), compared in root
    units with Fractions (exact in the Fraction registry whenever pint's own factor is exact);
  * the in-place form leaves the object equal to what the functional form returns;
  * to_reduced_units leaves no two units with proportional dimension vectors (decided
    without _get_dimensionality_ratio);
  * to_compact: result = prefix-free form of the input with ONE unit carrying ONE decimal
    prefix; for a leading unit of power p the magnitude lands in [1, 1000^|p|) whenever the
    needed prefix exists (p = 1 is the clause of the statement); unitless / dimensionless /
    0 / NaN / +-inf inputs come back unchanged.

Violation keys (matched by known_findings/C15.json):
  compact-range:float-boundary          F12  float log10 at a power-of-1000 boundary
  compact-assert:<unit>                 F21  AssertionError in infer_base_unit (fixed by 3fd38de: now a VIOLATION)
  reduced-dimerr:float-nondyadic        F22  float registry, exponent ratio not dyadic
  compact-fixed:dimensionless-with-units F95 dimensionless but not unitless input is rescaled
  preferred-simple-wrong-dim            F96  find_simple accepts a non-proportional unit (`**`) (fixed by 75b5cc1: now a VIOLATION)
"""
import json
import logging
import math
import random
import warnings
from decimal import Decimal
from fractions import Fraction as F

from . import regk
from .common import coq_bool, coq_list, coq_opt, coq_q, coq_str, coq_uc

logging.getLogger("pint").setLevel(logging.ERROR)

HEADER = ("From PintV Require Import Model.UC Model.Eval Model.Registry Model.UCRun Model.Rewrite "
          "Model.RewriteRun Gen.DefaultDefs Gen.DefaultReg.\nOpen Scope string_scope.\n"
          "Definition ok (c : c15case) : bool := c15_ok default_reg c.\n")

EXPS = [-3, -2, -1, 1, 2, 3]
DEC_PREFIXES = ["quecto", "yocto", "femto", "nano", "micro", "milli", "centi", "deci", "deca", "hecto",
                "kilo", "mega", "giga", "exa", "ronna", "quetta"]
REL = F(1, 10 ** 9)


# ------------------------------------------------------------------ small helpers
def is_ufloat(m):
    return hasattr(m, "nominal_value")


def nominal(m):
    return m.nominal_value if is_ufloat(m) else m


def special(m):
    m = nominal(m)
    return isinstance(m, float) and (math.isnan(m) or math.isinf(m))


def fr(m):
    """exact rational value of a finite magnitude"""
    return F(nominal(m))


def items_of(container):
    return [(k, F(v)) for k, v in container.items()]


def xerr(e):
    import pint
    if isinstance(e, pint.errors.DimensionalityError):
        return "XDim"
    if isinstance(e, AssertionError):
        return "XAssert"
    if isinstance(e, pint.errors.OffsetUnitCalculusError):
        return "XOffset"
    if isinstance(e, pint.errors.UndefinedUnitError):
        return "XUndefined"
    if isinstance(e, ZeroDivisionError):
        return "XZeroDiv"
    return "XOther"


def coq_mag(m):
    m = nominal(m)
    if isinstance(m, float):
        if math.isnan(m):
            return "MNaN"
        if math.isinf(m):
            return "MPInf" if m > 0 else "MNInf"
    return f"(MFin {coq_q(F(m))})"


def coq_rq(m, items):
    return f"(RQ {coq_mag(m)} {coq_list([coq_str(k) for k, _ in items])} {coq_uc(dict(items))})"


def coq_hres(res, exact=True):
    """res = ('ok', m, items) | ('err', exc)"""
    if res[0] == "err":
        return f"(HErr {xerr(res[1])})"
    m = f"(Some {coq_mag(res[1])})" if exact else "None"
    return f"(HOk {m} {coq_uc(dict(res[2]))})"


def ustr(unit):
    """a Unit as text without str() (Fraction exponents cannot be formatted: C09/F18)"""
    return " * ".join(f"{k}**{F(v)}" for k, v in unit._units.items())


def exact_num(x):
    return isinstance(x, (int, F)) and not isinstance(x, bool)


def jq(m, items):
    return {"magnitude": repr(m), "units": [[k, str(v)] for k, v in items]}


def mkc(ureg, d):
    """dict name -> Fraction as a UnitsContainer of the registry (ints stay ints)"""
    nit = ureg.non_int_type

    def num(v):
        v = F(v)
        if v.denominator == 1:
            return int(v)
        if nit is float:
            return float(v)
        if nit is Decimal:
            return Decimal(v.numerator) / Decimal(v.denominator)
        return v
    return ureg.UnitsContainer({k: num(v) for k, v in d.items()})


class Reg:
    """one pint registry plus the tables the oracles need"""

    def __init__(self, nit=F, **kw):
        self.u = regk.registry(nit, **kw)
        self.nit = nit
        self.kw = kw
        self.canon = regk.canonical_names(self.u)
        self.canon_set = set(self.canon)
        # decimal prefixes, exactly (independent of math.log10): name -> power
        self.dec = {}
        for p in self.u._prefixes.values():
            v = F(str(p.converter.scale)) if not isinstance(p.converter.scale, (int, F)) else F(p.converter.scale)
            k = None
            for e in range(-40, 41):
                if v == F(10) ** e:
                    k = e
            if k is not None and p.name:
                self.dec[p.name] = k
        self.dec_sorted = sorted(self.dec, key=len, reverse=True)
        self.allp_sorted = sorted({p.name for p in self.u._prefixes.values() if p.name}, key=len, reverse=True)
        self.ambig = {n for n in self.canon if len(self.u.parse_unit_name(n)) != 1}

    def mk(self, m, items):
        return self.u.Quantity(m, mkc(self.u, dict(items)))

    def root(self, container):
        return self.u._get_root_units(container, check_nonmult=False)

    def dims(self, container):
        return {k: F(v) for k, v in self.u._get_dimensionality(container).items()}

    def unit_dims(self, name):
        return self.dims(self.u.UnitsContainer({name: 1}))

    def split(self, name):
        """(decimal prefix name, base name): the prefixed reading when one exists"""
        if name in self.ambig:
            return "", name
        for p in self.dec_sorted:
            if name.startswith(p) and name[len(p):] in self.canon_set:
                return p, name[len(p):]
        return "", name

    def strip(self, name):
        """base name: any prefix (decimal or binary) removed"""
        if name in self.ambig:
            return name
        for p in self.allp_sorted:
            if name.startswith(p) and name[len(p):] in self.canon_set:
                return name[len(p):]
        return name

    def base_form(self, items):
        """prefix-free container (ordered), independent of infer_base_unit"""
        d = {}
        for k, v in items:
            b = self.strip(k)
            d[b] = d.get(b, 0) + v
        return [(k, v) for k, v in d.items() if v != 0]


def dims_close(d1, d2):
    ks = set(d1) | set(d2)
    return all(abs(d1.get(k, 0) - d2.get(k, 0)) <= F(1, 10 ** 9) for k in ks)


def proportional(d1, d2):
    """two dimension vectors span the same line (both empty counts: dimensionless units merge)"""
    if not d1 and not d2:
        return True
    if not d1 or not d2 or set(d1) != set(d2):
        return False
    k0 = next(iter(d1))
    return all(d2[k] * d1[k0] == d2[k0] * d1[k] for k in d1)


# ------------------------------------------------------------------ generators
_PLAIN = {}


def rnd_items(rng, pool, prefixed=0.25, nmax=4):
    n = rng.randint(1, nmax)
    names = []
    while len(names) < n:
        k = rng.choice(pool)
        if rng.random() < prefixed and _PLAIN.get(k, True):
            k = rng.choice(DEC_PREFIXES + ["kibi"]) + k
        if k not in names:
            names.append(k)
    return [(k, F(rng.choice(EXPS))) for k in names]


def rnd_mag_exact(rng):
    k = rng.randint(-30, 30)
    x = rng.random()
    if x < 0.22:
        m = F(10) ** k
    elif x < 0.40:
        m = F(10) ** k * (1 + F(rng.choice([-1, 1]), 10 ** rng.choice([15, 16, 17, 20, 30])))
    elif x < 0.50:
        m = F(10) ** k * rng.choice([F(999), F(1001), F(9999, 10), F(1, 1000) + 1])
    elif x < 0.60:
        m = F(rng.randint(1, 999999))          # becomes an int magnitude
        return int(m) * rng.choice([-1, 1])
    else:
        m = F(rng.randint(1, 99999), rng.choice([1, 3, 7, 1000, 64])) * F(10) ** k
    return m * rng.choice([-1, 1, 1])


def rnd_mag_float(rng):
    k = rng.randint(-30, 30)
    x = rng.random()
    b = float(F(10) ** k)
    if x < 0.2:
        m = b
    elif x < 0.45:
        m = math.nextafter(b, rng.choice([0.0, math.inf]))
    elif x < 0.55:
        m = b * rng.choice([999.9999999999999, 0.9999999999999999, 1.0000000000000002, 999.0])
    elif x < 0.62:
        return rng.randint(1, 10 ** rng.randint(1, 12)) * rng.choice([-1, 1])
    else:
        m = rng.uniform(1, 1000) * b
    return m * rng.choice([-1.0, 1.0, 1.0])


def range_exhausted(e):
    """float range exhausted (overflow to inf inside pint's float fallback): not a property matter"""
    return isinstance(e, OverflowError) or (isinstance(e, ValueError) and ("'inf'" in str(e) or "'nan'" in str(e) or "'-inf'" in str(e)))


def call(f, *a, **k):
    try:
        with warnings.catch_warnings():
            warnings.simplefilter("ignore")
            return ("ok", f(*a, **k))
    except Exception as e:  # noqa: BLE001
        return ("err", e)


def qres(r):
    """('ok', quantity) -> ('ok', m, items)"""
    if r[0] == "err":
        return r
    q = r[1]
    return ("ok", q._magnitude, items_of(q._units))


# ------------------------------------------------------------------ the check
class Run:
    def __init__(self, ck):
        self.ck = ck
        self.rng = random.Random(ck.seed + 1)
        self.cases = []       # (term, desc, explain) explain: None | 'float-boundary'
        self.fails = []       # (key, desc, replay)
        self.failed_inputs = set()

    def add(self, term, desc, key, explain=None):
        self.cases.append((term, desc, explain))
        self.ck.case(key=key, nontrivial=True, sample=desc if len(self.ck.samples) < 6 else None)

    def fail(self, key, desc, rp):
        self.fails.append((key, desc, rp))
        self.failed_inputs.add(json.dumps(rp.get("quantity", rp), sort_keys=True, default=str))

    # -------------------------------------------------------------- oracles
    def preserved(self, R, what, m0, it0, res, rp, exact=True):
        """same dimensionality and physical value; res = ('ok', m, items)"""
        if res[0] == "err":
            return False
        _, m1, it1 = res
        u = R.u
        c0, c1 = mkc(u, dict(it0)), mkc(u, dict(it1))
        try:
            d0, d1 = R.dims(c0), R.dims(c1)
        except Exception as e:  # noqa: BLE001
            self.fail(f"{what}:result-units-unusable", f"{what}: dimensionality of the result cannot be computed ({type(e).__name__})", rp)
            return False
        if not dims_close(d0, d1):
            self.fail(f"{what}:dimensionality", f"{what} changed the dimensionality: {d0} -> {d1}", rp)
            return False
        if not special(m0) and special(m1) and math.isinf(nominal(m1)):
            # finite -> inf: float overflow when the true result is beyond the float range (or pint's float
            # factor already overflowed); anything else is a changed value
            try:
                f0, _ = R.root(c0)
                f1, _ = R.root(c1)
                big = abs(fr(m0) * F(f0) / F(f1)) > F(10) ** 300
            except (OverflowError, ValueError, ZeroDivisionError):
                big = True
            if big or self.extreme(R, it0) or self.extreme(R, it1):
                self.ck.count("float-range-exhausted")
                return True
        if special(m0) or special(m1):
            a, b = nominal(m0), nominal(m1)
            same = (isinstance(a, float) and isinstance(b, float) and
                    ((math.isnan(a) and math.isnan(b)) or a == b))
            if not same:
                self.fail(f"{what}:value", f"{what}: non-finite magnitude {a!r} became {b!r}", rp)
            return same
        try:
            f0, _ = R.root(c0)
            f1, _ = R.root(c1)
            a, b = fr(m0) * F(f0), fr(m1) * F(f1)
        except (OverflowError, ValueError):      # float range exhausted: nothing to compare
            self.ck.count("float-range-exhausted")
            return True
        if exact and all(exact_num(x) for x in (f0, f1, nominal(m0), nominal(m1))):
            good = a == b
        else:
            good = abs(a - b) <= REL * max(abs(a), abs(b))
        if not good and not (exact and all(exact_num(x) for x in (f0, f1, nominal(m0), nominal(m1)))) and \
                (self.extreme(R, it0) or self.extreme(R, it1)):
            # a power of a single unit is beyond 1e+-250: pint's float factor passes through the subnormal /
            # overflow range (planck_time**7 = 1.3e-303) and loses digits there
            self.ck.count("float-range-exhausted")
            return True
        if not good:
            self.fail(f"{what}:value", f"{what} changed the physical value: {float(a)!r} -> {float(b)!r} (root units)", rp)
        if is_ufloat(m0) and good:
            try:
                s0, s1 = F(m0.std_dev) * abs(F(f0)), F(m1.std_dev) * abs(F(f1)) if is_ufloat(m1) else None
            except (OverflowError, ValueError):
                self.ck.count("float-range-exhausted")
                return good
            if s1 is None or abs(s0 - s1) > REL * max(abs(s0), abs(s1)):
                self.fail(f"{what}:uncertainty", f"{what} changed the standard deviation", rp)
        return good

    def extreme(self, R, items):
        for k, v in items:
            try:
                f = F(R.root(mkc(R.u, {k: F(1)}))[0])
                if f > 0 and abs(math.log10(f) * float(v)) > 250:
                    return True
            except Exception:  # noqa: BLE001
                return True
        return False

    def twin(self, R, what, fun_res, ito_res, rp):
        """in-place form leaves the object equal to what the functional form returns"""
        if fun_res[0] != ito_res[0]:
            self.fail(f"{what}:ito-differs", f"to_{what} and ito_{what} disagree on success: {fun_res[0]} / {ito_res[0]}", rp)
            return
        if fun_res[0] == "err":
            if type(fun_res[1]) is not type(ito_res[1]):
                self.fail(f"{what}:ito-differs", f"to_{what} raises {type(fun_res[1]).__name__}, ito_{what} raises {type(ito_res[1]).__name__}", rp)
            return
        _, m1, it1 = fun_res
        _, m2, it2 = ito_res
        if dict(it1) != dict(it2):
            self.fail(f"{what}:ito-differs", f"ito_{what} leaves units {dict(it2)}, to_{what} returns {dict(it1)}", rp)
            return
        a, b = nominal(m1), nominal(m2)
        if special(a) or special(b):
            same = special(a) and special(b) and (math.isnan(a) and math.isnan(b) or a == b)
        elif exact_num(a) and exact_num(b):
            same = a == b
        else:
            same = abs(F(a) - F(b)) <= F(1, 10 ** 12) * max(abs(F(a)), abs(F(b)))
        if not same:
            self.fail(f"{what}:ito-differs", f"ito_{what} leaves magnitude {b!r}, to_{what} returns {a!r}", rp)

    def no_mergeable(self, R, what, res, rp):
        if res[0] == "err":
            return
        names = [k for k, _ in res[2]]
        try:
            ds = {k: R.unit_dims(k) for k in names}
        except Exception:  # noqa: BLE001
            return
        for i, a in enumerate(names):
            for b in names[i + 1:]:
                if proportional(ds[a], ds[b]):
                    self.fail(f"{what}:mergeable-pair", f"{what} left two units of the same dimension up to a power: {a}, {b}", dict(rp, pair=[a, b]))
                    return

    def compact_oracle(self, R, m0, it0, res, rp):
        """only-prefix, range and fixed-point clauses; returns 'float-boundary' when the result is
        explained by a float boundary"""
        q0 = R.mk(m0, it0)
        nm = nominal(m0)
        try:
            dimless = not R.dims(q0._units)
            rootless = not R.root(q0._units)[1]
        except Exception as e:  # noqa: BLE001
            if range_exhausted(e):
                self.ck.count("float-range-exhausted")
                return None
            raise
        fixed = rootless or special(nm) or nm == 0
        if res[0] == "err":
            e = res[1]
            if isinstance(e, AssertionError):
                amb = [k for k, _ in it0 if len(R.u.parse_unit_name(k)) != 1]
                self.fail(f"compact-assert:{amb[0] if amb else '?'}",
                          f"to_compact raises AssertionError (infer_base_unit: {amb[0] if amb else '?'} has "
                          f"{len(R.u.parse_unit_name(amb[0])) if amb else '?'} readings)", rp)
            elif range_exhausted(e):
                self.ck.count("float-range-exhausted")
            else:
                self.fail(f"compact-raises:{type(e).__name__}", f"to_compact raises {type(e).__name__}: {str(e)[:120]}", rp)
            return None
        _, m1, it1 = res
        if fixed:
            same_m = (special(nm) and special(nominal(m1)) and (math.isnan(nm) and math.isnan(nominal(m1)) or nm == nominal(m1))) or \
                     (not special(nm) and not special(nominal(m1)) and fr(m0) == fr(m1))
            if not (same_m and dict(it1) == dict(it0)):
                self.fail("compact-fixed", f"to_compact changed a fixed-point input ({'unitless' if rootless else 'zero/nan/inf'}): -> {m1!r} {[k for k, _ in it1]}", rp)
            return None
        if dimless and (dict(it1) != dict(it0) or fr(m0) != fr(m1)):
            # the literal reading of the statement (pint's .dimensionless); the code tests .unitless
            self.fail("compact-fixed:dimensionless-with-units",
                      f"to_compact changed a dimensionless quantity that has units: {m0!r} {dict((k, str(v)) for k, v in it0)} -> {m1!r} {[k for k, _ in it1]}", rp)
        # exactly one unit of the prefix-free form carries one decimal prefix
        base = R.base_form(it0)
        pref = [(k,) + R.split(k) for k, _ in it1]
        prefixed = [(k, p, b) for k, p, b in pref if p]
        if len(prefixed) > 1 or dict(R.base_form(it1)) != dict(base) or len(it1) != len(base):
            self.fail("compact-only-prefix", f"to_compact did more than put one decimal prefix on one unit of {base}: {it1}", rp)
            return None
        # range
        lead = next(((k, v) for k, v in base if v > 0), base[0])
        if prefixed and prefixed[0][2] != lead[0]:
            self.fail("compact-only-prefix:not-leading", f"prefix put on {prefixed[0][2]}, leading unit is {lead[0]}", rp)
            return None
        p = lead[1]
        if p.denominator != 1 or special(m1):
            return None
        p = int(p)
        power = R.dec[prefixed[0][1]] if prefixed else 0
        a = abs(fr(m1))
        lo, hi = F(1), F(1000) ** abs(p)
        in_range = lo <= a < hi
        # needed prefix exists?  too big: want a higher power (p>0) / lower (p<0)
        if a >= hi and ((p > 0 and power >= 30) or (p < 0 and power <= -30)):
            return None
        if a < lo and ((p > 0 and power <= -30) or (p < 0 and power >= 30)):
            return None
        near = min(abs(a / lo - 1), abs(a / hi - 1)) <= F(1, 2 ** 40)
        if not in_range:
            tag = "compact-range" if abs(p) == 1 else "compact-range:power"
            if near:
                self.fail("compact-range:float-boundary",
                          f"to_compact leaves |magnitude| = {float(a)!r} outside [1, 1000^{abs(p)}) (float log10 at the boundary): {m0!r} {lead[0]}", rp)
                return "float-boundary"
            self.fail(tag, f"to_compact leaves |magnitude| = {float(a)!r} outside [1, 1000^{abs(p)}) for leading unit {lead[0]}**{p}", rp)
            return None
        return "float-boundary" if near else None

    # -------------------------------------------------------------- one quantity, every helper
    def exercise(self, R, m, items, tag, with_model, base_k=True, only_compact=False, twin_k=1.0):
        try:
            self._exercise(R, m, items, tag, with_model, base_k, only_compact, twin_k)
        except Exception as e:  # noqa: BLE001
            if not range_exhausted(e):
                raise
            self.ck.count("float-range-exhausted")

    def _exercise(self, R, m, items, tag, with_model, base_k=True, only_compact=False, twin_k=1.0):
        ck = self.ck
        exact = R.nit is F and not is_ufloat(m) and not isinstance(nominal(m), float)
        rp0 = {"registry": {"non_int_type": R.nit.__name__, **R.kw}, "quantity": jq(m, items)}
        rqt = coq_rq(m, items) if with_model else None
        key0 = (tag, repr(m), tuple(items))
        for what in (() if only_compact else ("root_units", "base_units", "reduced_units")):
            rp = dict(rp0, helper=what)
            q = R.mk(m, items)
            fun = qres(call(getattr(q, "to_" + what)))
            if (nominal(q._magnitude) != nominal(m) and not special(m)) or items_of(q._units) != items:
                self.fail(f"{what}:to-mutates-input", f"to_{what} modified its input", rp)
            q2 = R.mk(m, items)
            r2 = call(getattr(q2, "ito_" + what))
            ito = ("ok", q2._magnitude, items_of(q2._units)) if r2[0] == "ok" else r2
            self.twin(R, what, fun, ito, rp)
            if fun[0] == "ok":
                self.preserved(R, what, m, items, fun, rp, exact)
                if what == "reduced_units":
                    self.no_mergeable(R, what, fun, rp)
            else:
                e = fun[1]
                import pint
                if what == "reduced_units" and R.nit is not F and isinstance(e, pint.errors.DimensionalityError):
                    self.fail(self.reduced_dimerr_key(R, items),
                              f"{R.nit.__name__} registry: to_reduced_units raises DimensionalityError ({str(e)[:100]}); exact reduction {self.exact_reduction(items)}", rp)
                elif range_exhausted(e):
                    ck.count("float-range-exhausted")
                else:
                    self.fail(f"{what}:raises:{type(e).__name__}", f"to_{what} raises {type(e).__name__}: {str(e)[:120]}", rp)
            ck.count(f"{tag}:{what}")
            mex = exact and fun[0] == "ok" and self.factor_exact(R, items, fun[2])
            if with_model and exact:
                kn = {"root_units": "Root", "base_units": "Base", "reduced_units": "Reduced"}[what]
                if what == "base_units":
                    if not base_k:
                        continue
                    tgt = call(lambda: R.u._get_base_units(R.u.UnitsContainer(dict(items)))[1])
                    if tgt[0] != "ok":
                        continue
                    t = coq_uc(dict(items_of(tgt[1])))
                    self.add(f"KBase {rqt} {t} {coq_hres(fun, mex)}", dict(rp, k="to"), key0 + ("KBase",))
                    if self.rng.random() < twin_k:
                        self.add(f"KIBase {rqt} {t} {coq_hres(ito, mex)}", dict(rp, k="ito"), key0 + ("KIBase",))
                else:
                    self.add(f"K{kn} {rqt} {coq_hres(fun, mex)}", dict(rp, k="to"), key0 + ("K" + kn,))
                    if self.rng.random() < twin_k:
                        self.add(f"KI{kn} {rqt} {coq_hres(ito, mex)}", dict(rp, k="ito"), key0 + ("KI" + kn,))
        # to_compact (no in-place twin exists)
        rp = dict(rp0, helper="compact")
        q = R.mk(m, items)
        fun = qres(call(q.to_compact))
        expl = self.compact_oracle(R, m, items, fun, rp)
        if fun[0] == "ok":
            self.preserved(R, "compact", m, items, fun, rp, exact)
        ck.count(f"{tag}:compact")
        if with_model:
            hres = coq_hres(fun, exact=exact and fun[0] == "ok" and self.factor_exact(R, items, fun[2]))
            self.add(f"KCompact {rqt} {hres}", rp, key0 + ("KCompact",), explain=expl)

    def factor_exact(self, R, it0, it1):
        """pint's own conversion factor between the two containers is exact (no float fallback)"""
        try:
            return exact_num(R.root(mkc(R.u, dict(it0)))[0]) and exact_num(R.root(mkc(R.u, dict(it1)))[0])
        except Exception:  # noqa: BLE001
            return False

    _UF = None

    def reduced_dimerr_key(self, R, items):
        """cause tag: some dimensionality ratio between two units of the quantity (or an exponent of the
        exact reduction) cannot be represented in the registry's number type"""
        UF = self._UF
        vals = []
        names = [k for k, _ in items]
        for a in names:
            for b in names:
                if a != b:
                    try:
                        x = UF.u._get_dimensionality_ratio(a, b)
                    except Exception:  # noqa: BLE001
                        x = None
                    if x is not None:
                        vals.append(F(x))
        ex = self.exact_reduction(items)
        vals += list((ex or {}).values())

        def representable(v):
            d = v.denominator
            if R.nit is Decimal:
                while d % 5 == 0:
                    d //= 5
            while d % 2 == 0:
                d //= 2
            return d == 1
        if all(representable(v) for v in vals):
            return "reduced-dimerr"
        return "reduced-dimerr:float-nondyadic" if R.nit is float else "reduced-dimerr:decimal-nonterminating"

    def exact_reduction(self, items):
        import pint.facets.plain.qto as qto
        R = self._UF
        try:
            q = R.mk(F(1), items)
            return {k: F(v) for k, v in qto._get_reduced_units(q, q._units.copy()).items()}
        except Exception:  # noqa: BLE001
            return None


def run(ck):
    import pint
    warnings.simplefilter("ignore")
    import pint.facets.plain.qto as qto
    from pint.util import infer_base_unit
    rng = random.Random(ck.seed)
    thorough = ck.tier == "thorough"
    ck.rule = ("random quantities over every multiplicative canonical unit of the default registry (1-4 units, a quarter "
               "of them with a decimal/binary prefix, exponents -3..3, magnitudes 10^k*(1 +- tiny), exact powers of ten, "
               "+-1 ulp, ints, both signs, k in -30..30; NaN/inf/0; ufloat): every helper and its ito_ twin in the Fraction "
               "registry (exact) and the float registry; Decimal registry; every default system (to_base_units); registries "
               "with auto_reduce_dimensions / autoconvert_to_preferred / both; find_simple in isolation (mip stubbed); "
               "to_preferred with the real python-mip.  non-trivial = distinct (stream, magnitude, ordered units, case kind)")
    ck.assumptions += ["units whose root factor pint itself holds as a float (non-integer power of a scale) are compared with "
                       "relative tolerance 1e-9 and stay outside the model comparison",
                       "offset / logarithmic units are exercised through the twin and value oracles only (C06 owns their calculus)",
                       "to_preferred: the integer programme (python-mip/CBC) is a parameter of the model; its observed answer is "
                       "passed to the model, only its dimensionality is checked",
                       "float range: an OverflowError / inf produced by pint's own float factor computation (extreme compound units such as "
                       "planck_time**-3 * thomson_cross_section**-3, including intermediate overflow for a representable result) is counted as "
                       "float-range-exhausted, not as a changed value; so is a tolerance failure (1e-9) when a single unit power of the "
                       "quantity is beyond 1e+-250 (gradual underflow inside pint's float factor: planck_time**7 = 1.3e-303)",
                       "to_compact in floats: the model is exact; a difference is accepted as explained only when the exact "
                       "magnitude is within 2^-40 (relative) of a power-of-1000 boundary"]
    ck.trusted += ["math.log10 / float rounding (not modelled: F12)", "python-mip / CBC (parameter of the model)"]
    import time
    t0 = time.time()
    built = ck.coq_build(["Properties/C15.vo", "Model/RewriteRun.vo", "Gen/DefaultReg.vo"])
    ck.extra["t_build_s"] = round(time.time() - t0, 1)
    t0 = time.time()

    run_ = Run(ck)
    UF = Reg(F)
    Run._UF = UF
    Uf = Reg(float)
    mult = [n for n in UF.canon if regk.multiplicative(UF.u, n)]
    ambiguous = [n for n in mult if len(UF.u.parse_unit_name(n)) != 1]
    ck.extra["units_with_two_readings"] = ambiguous
    ratl = []
    for n in mult:
        f, _ = UF.root(UF.u.UnitsContainer({n: 1}))
        if exact_num(f):
            ratl.append(n)
    irrational = [n for n in mult if n not in ratl]
    ck.extra["pool_rational_units"] = len(ratl)
    ck.extra["pool_float_units"] = len(irrational)
    nonmult = [n for n in UF.canon if not regk.multiplicative(UF.u, n)]
    for n in UF.canon:            # names that already read as prefix+unit are not prefixed again
        _PLAIN[n] = UF.strip(n) == n and n not in UF.ambig

    NQ = 1100 if thorough else 110

    # ---------------------------------------------------------------- 1. exact stream (Fraction registry, model + oracles)
    for i in range(NQ):
        items = rnd_items(rng, ratl)
        m = rnd_mag_exact(rng)
        run_.exercise(UF, m, items, "exact", with_model=True, twin_k=1.0 if thorough else 0.4)
    # single units, every rational unit once (to_compact / root on the whole registry)
    for n in (ratl if thorough else rng.sample(ratl, 50)):
        run_.exercise(UF, rnd_mag_exact(rng), [(n, F(rng.choice([1, 1, -1, 2])))], "exact1", with_model=True, twin_k=1.0 if thorough else 0.3)
    # every decimal power: the prefix table as to_compact sees it
    for k in range(-36, 37):
        for e in ((1, -1, 2) if thorough or k % 3 == 0 else (1,)):
            run_.exercise(UF, F(10) ** k * rng.choice([1, 5, F(1001, 1000)]), [("meter", F(e))], "table", with_model=True, base_k=False, only_compact=True)

    # ---------------------------------------------------------------- 2. float registry: oracles; model for to_compact
    for i in range(NQ):
        items = rnd_items(rng, ratl)
        m = rnd_mag_float(rng)
        # keep floats finite after conversion to root units
        run_.exercise(Uf, m, items, "float", with_model=False)
    for i in range(NQ * 2 if thorough else 200):
        n = rng.choice(["meter", "second", "gram", "watt", "byte", "newton", "liter", "ampere", "pascal", "mole"] + rng.sample(ratl, 3))
        if rng.random() < 0.3 and _PLAIN.get(n, True):
            n = rng.choice(DEC_PREFIXES) + n
        items = [(n, F(rng.choice([1, 1, 1, -1, 2, -2, 3])))]
        if rng.random() < 0.3:
            items.append((rng.choice([x for x in ["second", "kelvin", "mole", "candela"] if x != n]), F(rng.choice([-1, -2, 1]))))
        m = rnd_mag_float(rng)
        rp = {"registry": {"non_int_type": "float"}, "quantity": jq(m, items), "helper": "compact"}
        fun = qres(call(Uf.mk(m, items).to_compact))
        expl = run_.compact_oracle(Uf, m, items, fun, rp)
        if fun[0] == "ok":
            run_.preserved(Uf, "compact", m, items, fun, rp, exact=False)
        run_.add(f"KCompact {coq_rq(m, items)} {coq_hres(fun, exact=False)}", rp, ("fcompact", repr(m), tuple(items)), explain=expl)
        ck.count("float:compact-model")
    # the F12 witness itself
    for m, n in [(999.9999999999999, "meter"), (F(10 ** 15 - 1), "meter")]:
        R = Uf if isinstance(m, float) else UF
        items = [(n, F(1))]
        rp = {"registry": {"non_int_type": R.nit.__name__}, "quantity": jq(m, items), "helper": "compact"}
        fun = qres(call(R.mk(m, items).to_compact))
        expl = run_.compact_oracle(R, m, items, fun, rp)
        run_.add(f"KCompact {coq_rq(m, items)} {coq_hres(fun, exact=R is UF)}", rp, ("f12", repr(m)), explain=expl)

    # the F22 witness and a directed stream: volumes against lengths (ratio 1/3), areas against volumes (2/3)
    f22 = [[("hand", F(2)), ("quart", F(2)), ("survey_mile", F(2)), ("gill", F(-3))]]
    vols = [n for n in ratl if UF.unit_dims(n) == {"[length]": 3}]
    lens = [n for n in ratl if UF.unit_dims(n) == {"[length]": 1}]
    areas = [n for n in ratl if UF.unit_dims(n) == {"[length]": 2}]
    for _ in range(120 if thorough else 25):
        it = [(rng.choice(vols), F(rng.choice(EXPS))), (rng.choice(lens), F(rng.choice(EXPS)))]
        if rng.random() < 0.5:
            it.insert(rng.randint(0, 2), (rng.choice(areas), F(rng.choice(EXPS))))
        if rng.random() < 0.5:
            it.append((rng.choice(["second", "kilogram", "kelvin"]), F(rng.choice(EXPS))))
        if len({k for k, _ in it}) == len(it):
            f22.append(it)
    for it in f22:
        run_.exercise(Uf, rnd_mag_float(rng) if it is not f22[0] else 1.0, it, "thirds", with_model=False)
        run_.exercise(UF, rnd_mag_exact(rng), it, "thirds", with_model=True)

    # ---------------------------------------------------------------- 3. fixed points, special values, ufloat, Decimal
    fixed_units = [[], [("percent", F(1))], [("radian", F(1))], [("count", F(1))], [("meter", F(1)), ("inch", F(-1))],
                   [("kilometer", F(1)), ("meter", F(-1))], [("degree", F(2))], [("bit", F(1))], [("meter", F(1))],
                   [("kilogram", F(1)), ("second", F(-2))], [("steradian", F(1)), ("meter", F(1))]]
    for it in fixed_units:
        for m in [1500.0, 0.0, -0.0, 0, float("nan"), float("inf"), float("-inf"), 2.5e-7]:
            run_.exercise(Uf, m, it, "fixed", with_model=True, twin_k=0.3)
        for m in [F(1500), F(0), 0, F(3, 10 ** 7)]:
            run_.exercise(UF, m, it, "fixedF", with_model=True, twin_k=0.3)
    try:
        from uncertainties import ufloat
        for i in range(200 if thorough else 40):
            items = rnd_items(rng, ratl, nmax=3)
            m = rnd_mag_float(rng)
            if isinstance(m, int):
                m = float(m)
            run_.exercise(Uf, ufloat(m, abs(m) * rng.choice([1e-6, 1e-3, 0.2])), items, "ufloat", with_model=False)
        ck.extra["ufloat"] = "exercised"
    except ImportError:
        ck.extra["ufloat"] = "uncertainties not installed"
    UD = Reg(Decimal)
    for i in range(150 if thorough else 30):
        items = rnd_items(rng, ratl, prefixed=0.1, nmax=3)
        m = Decimal(rng.randint(1, 99999)).scaleb(rng.randint(-25, 25)) * rng.choice([1, -1])
        rp0 = {"registry": {"non_int_type": "Decimal"}, "quantity": jq(m, items)}
        for what in ("root_units", "base_units", "reduced_units", "compact"):
            q = UD.mk(m, items)
            fun = qres(call(getattr(q, "to_" + what)))
            rp = dict(rp0, helper=what)
            if fun[0] == "ok":
                run_.preserved(UD, what, m, items, fun, rp, exact=False)
                if what == "compact":
                    run_.compact_oracle(UD, m, items, fun, rp)
            elif what == "reduced_units" and isinstance(fun[1], pint.errors.DimensionalityError):
                run_.fail(run_.reduced_dimerr_key(UD, items), f"Decimal registry: to_reduced_units raises DimensionalityError ({str(fun[1])[:100]})", rp)
            elif range_exhausted(fun[1]):
                ck.count("float-range-exhausted")
            else:
                run_.fail(f"{what}:raises:{type(fun[1]).__name__}", f"Decimal registry: to_{what} raises {type(fun[1]).__name__}: {str(fun[1])[:100]}", rp)
            if what != "compact":
                q2 = UD.mk(m, items)
                r2 = call(getattr(q2, "ito_" + what))
                run_.twin(UD, what, fun, ("ok", q2._magnitude, items_of(q2._units)) if r2[0] == "ok" else r2, rp)
            ck.case(key=("decimal", str(m), tuple(items), what))
        ck.count("decimal")

    # ---------------------------------------------------------------- 4. units with two readings (F21), float-only units, offset units
    for n in ambiguous:
        for it in ([(n, F(1))], [(n, F(1)), ("second", F(-1))], [("meter", F(1)), (n, F(-2))]):
            run_.exercise(UF, F(1500), it, "ambiguous", with_model=True)
            run_.exercise(Uf, 1500.0, it, "ambiguous", with_model=False)
    for i in range(120 if thorough else 30):
        items = rnd_items(rng, irrational + ratl[:20], prefixed=0.1, nmax=3)
        run_.exercise(Uf, rnd_mag_float(rng), items, "floatunits", with_model=False)
    for n in nonmult:
        for R, m in ((Uf, 25.0), (UF, F(25))):
            rp = {"registry": {"non_int_type": R.nit.__name__}, "quantity": jq(m, [(n, 1)])}
            for what in ("root_units", "base_units"):
                q = R.mk(m, [(n, F(1))])
                fun = qres(call(getattr(q, "to_" + what)))
                q2 = R.mk(m, [(n, F(1))])
                r2 = call(getattr(q2, "ito_" + what))
                run_.twin(R, what, fun, ("ok", q2._magnitude, items_of(q2._units)) if r2[0] == "ok" else r2, dict(rp, helper=what))
                if fun[0] == "ok":
                    d0, d1 = R.dims(q._units), R.dims(R.u.UnitsContainer(dict(fun[2])))
                    if not dims_close(d0, d1):
                        run_.fail(f"{what}:dimensionality", f"to_{what} changed the dimensionality of {n}", dict(rp, helper=what))
                ck.case(key=("nonmult", n, what, R.nit.__name__))
    ck.count("nonmultiplicative", len(nonmult))

    # ---------------------------------------------------------------- 5. pieces: ratio, reduced loop, infer_base_unit, unitless
    prs = [(rng.choice(ratl), rng.choice(ratl)) for _ in range(1500 if thorough else 250)]
    prs += [(a, a) for a in rng.sample(ratl, 10)] + [("radian", "count"), ("radian", "meter"), ("liter", "meter"), ("meter", "liter"),
                                                      ("hectare", "inch"), ("hertz", "second"), ("degree", "bit")]
    for a, b in prs:
        r = call(UF.u._get_dimensionality_ratio, a, b)
        if r[0] == "ok":
            o = f"(inl {coq_opt(coq_q(F(r[1])) if r[1] is not None else None)})"
            # oracle: the answer solves unit2 = unit1 ** x on the dimension vectors
            d1, d2 = UF.unit_dims(a), UF.unit_dims(b)
            if r[1] is not None and {k: v * F(r[1]) for k, v in d1.items()} != d2:
                run_.fail("ratio:wrong", f"_get_dimensionality_ratio({a},{b}) = {r[1]} does not solve dim2 = dim1**x", {"u1": a, "u2": b})
            if r[1] is None and a != b and proportional(d1, d2):
                run_.fail("ratio:missed", f"_get_dimensionality_ratio({a},{b}) = None for proportional dimensions", {"u1": a, "u2": b})
        else:
            o = f"(inr {xerr(r[1])})"
        run_.add(f"KRatio {coq_str(a)} {coq_str(b)} {o}", {"ratio": [a, b]}, ("ratio", a, b))
    ck.count("ratio", len(prs))
    for i in range(1200 if thorough else 120):
        items = rnd_items(rng, ratl, nmax=5)
        q = UF.mk(F(1), items)
        r = call(qto._get_reduced_units, q, q._units.copy())
        o = f"(inl {coq_uc(dict(items_of(r[1])))})" if r[0] == "ok" else f"(inr {xerr(r[1])})"
        run_.add(f"KReducedUnits {coq_list([coq_str(k) for k, _ in items])} {coq_uc(dict(items))} {o}",
                 {"reduced_units_of": jq(1, items)}, ("redunits", tuple(items)))
        if r[0] == "ok":
            run_.no_mergeable(UF, "get_reduced_units", ("ok", 1, items_of(r[1])), {"quantity": jq(1, items)})
        r = call(infer_base_unit, q, registry=UF.u)
        if r[0] == "ok":
            it = items_of(r[1])
            o = f"(inl ({coq_list([coq_str(k) for k, _ in it])}, {coq_uc(dict(it))}))"
            if dict(it) != dict(UF.base_form(items)):
                run_.fail("infer-base:wrong", f"infer_base_unit({items}) = {it}, prefix-free form is {UF.base_form(items)}", {"quantity": jq(1, items)})
        else:
            o = f"(inr {xerr(r[1])})"
        run_.add(f"KInfer {coq_list([coq_str(k) for k, _ in items])} {coq_uc(dict(items))} {o}", {"infer_base_unit": jq(1, items)}, ("infer", tuple(items)))
        for nm, kn in (("unitless", "KUnitless"), ("dimensionless", "KDimensionless")):
            r = call(lambda: getattr(q, nm))
            o = f"(inl {coq_bool(r[1])})" if r[0] == "ok" else f"(inr {xerr(r[1])})"
            run_.add(f"{kn} {coq_rq(F(1), items)} {o}", {nm: jq(1, items)}, (nm, tuple(items)))
    ck.count("pieces", 200)

    # ---------------------------------------------------------------- 6. to_preferred
    class _NoSimple(Exception):
        pass

    class _Stub:
        def __iter__(self):
            raise _NoSimple()

    def simple_only(R, q, prefs):
        """_get_preferred stopped right after find_simple: the next statement iterates _base_units"""
        orig = R.u._base_units
        R.u._base_units = _Stub()
        try:
            return call(qto._get_preferred, q, prefs)
        finally:
            R.u._base_units = orig

    def pref_sets(R):
        u = R.u
        fixed = [[u.m, u.kg, u.s, u.N, u.Pa, u.W], [u.ft, u.slug, u.s, u.lbf, u.W], [u.Unit("m/s")], [u.Unit("m/s"), u.Unit("kg*m")],
                 [u.liter], [u.Unit("m**2")], [u.Unit("m/s**2"), u.J], [u.Unit("1/s")], [u.Unit("m**3/s")]]
        return fixed

    PF = pref_sets(UF)
    simple_q = [[("meter", F(2)), ("second", F(1))], [("meter", F(2)), ("second", F(-2))], [("meter", F(-1)), ("second", F(1))],
                [("acre", F(1))], [("mile", F(1)), ("hour", F(-1))], [("liter", F(2))], [("hectare", F(1)), ("inch", F(1))],
                [("meter", F(3)), ("second", F(-3))], [("meter", F(2)), ("second", F(2))], [("foot", F(-2)), ("minute", F(2))],
                [("newton", F(1))], [("kilogram", F(2)), ("meter", F(2))], [("kilogram", F(1)), ("meter", F(-1))]]
    nsimple = 0
    for it in simple_q + [rnd_items(rng, ratl, nmax=3) for _ in range(400 if thorough else 80)]:
        q = UF.mk(F(3), it)
        if not q.dimensionality:
            continue
        prefs = rng.choice(PF) if it not in simple_q or rng.random() < 0.3 else None
        for prefs in ([prefs] if prefs is not None else PF):
            if rng.random() < 0.4:
                prefs = prefs + [UF.u.Unit(UF.u.UnitsContainer(dict(rnd_items(rng, ["meter", "second", "kilogram", "foot", "liter", "hertz", "newton"], prefixed=0, nmax=2))))]
            r = simple_only(UF, q, prefs)
            pcoq = coq_list([coq_uc(dict(items_of(p._units))) for p in prefs])
            dcoq = coq_uc(dict(items_of(q.dimensionality)))
            rp = {"quantity": jq(3, it), "preferred": [ustr(p) for p in prefs], "helper": "preferred:find_simple"}
            if r[0] == "ok":
                tu = r[1]._units if hasattr(r[1], "_units") else r[1]
                o = f"(inl (Some {coq_uc(dict(items_of(tu)))}))"
                if not dims_close(UF.dims(tu), UF.dims(q._units)):
                    run_.fail("preferred-simple-wrong-dim",
                              f"find_simple returns {dict(items_of(tu))} for a quantity in {dict(it)}: different dimensionality "
                              f"(the proportionality test uses ** instead of *); to_preferred then raises DimensionalityError", rp)
            elif isinstance(r[1], _NoSimple):
                o = "(inl None)"
            else:
                o = f"(inr {xerr(r[1])})"
            run_.add(f"KSimple {dcoq} {pcoq} {o}", rp, ("simple", tuple(it), tuple(ustr(p) for p in prefs)))
            nsimple += 1
    ck.count("preferred:find_simple", nsimple)
    npref = 0
    for it in [rnd_items(rng, ratl, nmax=3) for _ in range(150 if thorough else 36)] + simple_q[:6]:
        m = rnd_mag_exact(rng)
        prefs = rng.choice(PF[:2] + [PF[3]])
        q = UF.mk(m, it)
        rp = {"quantity": jq(m, it), "preferred": [ustr(p) for p in prefs], "helper": "preferred"}
        raw = call(q.to_preferred, prefs)
        floaty = raw[0] == "ok" and any(isinstance(v, float) for v in raw[1]._units.values())   # the mip branch: float exponents
        fun = qres(raw)
        q2 = UF.mk(m, it)
        r2 = call(q2.ito_preferred, prefs)
        ito = ("ok", q2._magnitude, items_of(q2._units)) if r2[0] == "ok" else r2
        run_.twin(UF, "preferred", fun, ito, rp)
        if fun[0] == "ok":
            run_.preserved(UF, "preferred", m, it, fun, rp, exact=True)
            pcoq = coq_list([coq_uc(dict(items_of(p._units))) for p in prefs])
            if all(v.denominator == 1 for _, v in fun[2]):
                run_.add(f"KPreferred {coq_rq(m, it)} {pcoq} {coq_uc(dict(fun[2]))} {coq_hres(fun, exact=not floaty)}", rp, ("pref", repr(m), tuple(it)))
                if ito[0] == "ok":
                    run_.add(f"KIPreferred {coq_rq(m, it)} {pcoq} {coq_uc(dict(ito[2]))} {coq_hres(ito, exact=not floaty)}", rp, ("ipref", repr(m), tuple(it)))
        else:
            import pint
            if isinstance(fun[1], pint.errors.DimensionalityError):
                r = simple_only(UF, q, prefs)
                simple_bad = r[0] == "ok" and not dims_close(UF.dims(r[1]._units if hasattr(r[1], "_units") else r[1]), UF.dims(q._units))
                run_.fail("preferred-simple-wrong-dim" if simple_bad else "preferred-mip-wrong-dim",
                          f"to_preferred raises DimensionalityError for {dict(it)} with preferred {[ustr(p) for p in prefs]}", rp)
            else:
                run_.fail(f"preferred:raises:{type(fun[1]).__name__}", f"to_preferred raises {type(fun[1]).__name__}: {str(fun[1])[:100]}", rp)
        npref += 1
    ck.count("preferred:mip", npref)

    # ---------------------------------------------------------------- 7. automatic application after * and /
    def autoregs():
        out = []
        for red, pref in ((True, False), (False, True), (True, True)):
            R = Reg(F, auto_reduce_dimensions=red, autoconvert_to_preferred=pref)
            prefs = None
            if pref:
                u = R.u
                prefs = [u.m, u.kg, u.s, u.N, u.Pa, u.W]
                u.default_preferred_units = prefs
            out.append((R, red, pref, prefs))
        # autoconvert_to_preferred with no default list: the lookup error is swallowed
        out.append((Reg(F, auto_reduce_dimensions=False, autoconvert_to_preferred=True), False, True, None))
        return out

    for R, red, pref, prefs in autoregs():
        n = (300 if thorough else 40) if not pref else (60 if thorough else 12)
        for i in range(n):
            ia, ib = rnd_items(rng, ratl, nmax=2), rnd_items(rng, ratl, nmax=2)
            ma, mb = rnd_mag_exact(rng), rnd_mag_exact(rng)
            for opn, op in (("mul", lambda x, y: x * y), ("div", lambda x, y: x / y)):
                a, b = R.mk(ma, ia), R.mk(mb, ib)
                rp = {"registry": {"non_int_type": "Fraction", **R.kw, "default_preferred_units": [ustr(p) for p in prefs] if prefs else None},
                      "a": jq(ma, ia), "b": jq(mb, ib), "op": opn, "helper": "auto"}
                raw = call(op, a, b)
                floaty = raw[0] == "ok" and any(isinstance(v, float) for v in raw[1]._units.values())
                res = qres(raw)
                if res[0] == "ok" and not run_.factor_exact(UF, ia + ib, res[2]):
                    floaty = True
                # reference: the same operation in the plain registry
                ref = qres(call(op, UF.mk(ma, ia), UF.mk(mb, ib)))
                if res[0] == "ok" and ref[0] == "ok":
                    run_.preserved(UF, f"auto-{opn}", ref[1], ref[2], res, rp, exact=True)
                    if red:
                        run_.no_mergeable(UF, f"auto-{opn}", res, rp)
                elif res[0] == "err" and ref[0] == "ok":
                    import pint
                    e = res[1]
                    if isinstance(e, pint.errors.DimensionalityError) and pref:
                        run_.fail("preferred-simple-wrong-dim" if prefs else "auto:raises", f"{opn} raises DimensionalityError under autoconvert_to_preferred", rp)
                    else:
                        run_.fail(f"auto-{opn}:raises:{type(e).__name__}", f"{opn} raises {type(e).__name__} only with the automatic options on", rp)
                cfg = f"(AutoCfg {coq_bool(pref)} {coq_opt(coq_list([coq_uc(dict(items_of(p._units))) for p in prefs]) if prefs else None)} {coq_bool(red)})"
                mr = coq_uc(dict(res[2])) if res[0] == "ok" else "∅"
                kn = "KAutoMul" if opn == "mul" else "KAutoDiv"
                run_.add(f"{kn} {cfg} {coq_rq(ma, ia)} {coq_rq(mb, ib)} {mr} {coq_hres(res, exact=not floaty)}", rp, ("auto", red, pref, opn, repr(ma), tuple(ia), repr(mb), tuple(ib)))
        ck.count(f"auto:reduce={red},preferred={pref},list={'set' if prefs else 'unset'}", n)

    # ---------------------------------------------------------------- 8. every default system: to_base_units
    systems = [s for s in dir(UF.u.sys)]
    ck.extra["systems"] = systems
    for s in systems:
        R = Reg(F, system=s)
        for i in range(250 if thorough else 30):
            items = rnd_items(rng, ratl, nmax=3)
            m = rnd_mag_exact(rng)
            rp = {"registry": {"non_int_type": "Fraction", "system": s}, "quantity": jq(m, items), "helper": "base_units"}
            q = R.mk(m, items)
            fun = qres(call(q.to_base_units))
            q2 = R.mk(m, items)
            r2 = call(q2.ito_base_units)
            ito = ("ok", q2._magnitude, items_of(q2._units)) if r2[0] == "ok" else r2
            run_.twin(R, "base_units", fun, ito, rp)
            if fun[0] == "ok":
                run_.preserved(R, f"base_units[{s}]", m, items, fun, rp, exact=True)
                fx = run_.factor_exact(R, items, fun[2])
                if fx and exact_num(fun[1]) and all(v.denominator == 1 for _, v in fun[2]):
                    run_.add(f"KBase {coq_rq(m, items)} {coq_uc(dict(fun[2]))} {coq_hres(fun)}", rp, ("sys", s, repr(m), tuple(items)))
            elif range_exhausted(fun[1]):
                ck.count("float-range-exhausted")
            else:
                run_.fail(f"base_units[{s}]:raises:{type(fun[1]).__name__}", f"system {s}: to_base_units raises {type(fun[1]).__name__}: {str(fun[1])[:100]}", rp)
        ck.count(f"system:{s}", 40)

    # ---------------------------------------------------------------- differ inside Coq
    cases = run_.cases
    import os
    if os.environ.get("C15_DUMP"):
        open(os.environ["C15_DUMP"], "w").write("\n".join(c for c, _, _ in cases))
    ck.extra["t_pint_s"] = round(time.time() - t0, 1)
    t0 = time.time()
    bad = ck.coq_mismatches("c15", HEADER, [c for c, _, _ in cases], "ok") if built else None
    ck.extra["t_model_s"] = round(time.time() - t0, 1)
    ck.extra["model_vs_impl_cases"] = len(cases)
    ck.extra["model_vs_impl_disagreements"] = None if bad is None else len(bad)
    unexplained = []
    if bad:
        kinds = {}
        for i in bad:
            kinds[cases[i][0].split(" ", 1)[0]] = kinds.get(cases[i][0].split(" ", 1)[0], 0) + 1
        ck.extra["disagreements_by_kind"] = kinds
        firsts = {}
        for i in bad:
            if cases[i][2] != "float-boundary":
                firsts.setdefault(cases[i][0].split(" ", 1)[0], cases[i][0][:1500])
        ck.extra["first_disagreement_by_kind"] = firsts
        expl = [i for i in bad if cases[i][2] == "float-boundary"]
        ck.extra["float_boundary_explained"] = len(expl)
        for i in bad:
            if cases[i][2] == "float-boundary":
                continue
            qk = json.dumps(cases[i][1].get("quantity", cases[i][1]), sort_keys=True, default=str)
            if qk in run_.failed_inputs:
                continue          # an oracle already failed on this very input
            unexplained.append(i)
    seen = set()
    for key, desc, rp in run_.fails:
        if key in seen:
            continue
        seen.add(key)
        ck.violation(key, desc, rp)
    ck.extra["oracle_failures_by_key"] = {k: sum(1 for x in run_.fails if x[0] == k) for k in seen}
    if unexplained:
        first = cases[unexplained[0]]
        shown = ck.coq_show(HEADER, f"ok ({first[0]})")
        ck.broken.append(f"correspondence Model.RewriteRun.c15_ok: {len(unexplained)} unexplained disagreements, first: {json.dumps(first[1], default=str)[:300]}")
        ck.violation("correspondence", "model and implementation disagree; no property oracle failed on that input",
                     {"first_disagreement": first[1], "coq_case": first[0], "n_disagreements": len(unexplained), "coq": shown[-600:]},
                     no_input=True)


def replay(ck, path):
    """re-run the stored helper on the stored quantity with the current tree"""
    d = json.load(open(path))
    print(json.dumps(d, indent=1, default=str)[:3000])
    rp = d.get("replay", {})
    if "quantity" not in rp or "helper" not in rp:
        return 0
    import ast
    kw = dict(rp.get("registry", {}))
    nit = {"Fraction": F, "float": float, "Decimal": Decimal}[kw.pop("non_int_type", "float")]
    kw.pop("default_preferred_units", None)
    R = Reg(nit, **kw)
    try:
        m = eval(rp["quantity"]["magnitude"], {"Fraction": F, "Decimal": Decimal, "nan": float("nan"), "inf": float("inf")})  # noqa: S307
    except Exception:  # noqa: BLE001
        m = ast.literal_eval(rp["quantity"]["magnitude"])
    items = [(k, F(v)) for k, v in rp["quantity"]["units"]]
    h = rp["helper"].split(":")[0]
    name = {"compact": "to_compact", "preferred": "to_preferred"}.get(h, "to_" + h)
    q = R.mk(m, items)
    args = []
    if h == "preferred":
        args = [[R.u.Unit(mkc(R.u, {t.split("**")[0]: F(t.split("**")[1]) for t in s.split(" * ")})) for s in rp.get("preferred", [])]]
    r = call(getattr(q, name), *args)
    print(f"now {name}:", (r[1]._magnitude, dict(r[1]._units)) if r[0] == "ok" else f"raises {type(r[1]).__name__}: {r[1]}")
    if hasattr(q, "i" + name):
        q2 = R.mk(m, items)
        r = call(getattr(q2, "i" + name), *args)
        print(f"now i{name}:", (q2._magnitude, dict(q2._units)) if r[0] == "ok" else f"raises {type(r[1]).__name__}: {r[1]}")
    return 0
