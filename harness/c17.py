"""C17 — wraps / check decorators hand over correct magnitudes and enforce dimensions.

Theorems: coq/Properties/C17.v (over Model/Wraps.v).  Correspondence K: random signatures
(1-5 parameters, defaults on a suffix), random spec lists (None, unit strings, Unit objects,
'=A' / '=A*B' / '=A**2' / '=A/B' references), random calls (positional / keyword / default
delivery; a malformed stream with missing, surplus, duplicated and unknown arguments), strict
on/off, scalar / tuple / list `ret`.  The wrapped Python function records what it receives; the
outcome (arguments seen, returned object, or error class) is compared with the model inside Coq
(Model/WrapsRun.v, exact rationals).  Oracles decide the property statement on pint alone.
"""
import json
import random
from fractions import Fraction as F

from .common import coq_bool, coq_list, coq_opt, coq_q, coq_str, coq_uc

HEADER = ("From PintV Require Import Model.UC Model.Wraps Model.WrapsRun.\n"
          "Open Scope string_scope.\n")

# ------------------------------------------------------------------ hand-written unit pool
# (independent of pint's definition files; mirrored by std_entries in Model/WrapsRun.v)
ALIAS = {"m": "meter", "metre": "meter", "cm": "centimeter", "mm": "millimeter", "km": "kilometer",
         "ft": "foot", "s": "second", "ms": "millisecond", "min": "minute", "h": "hour",
         "kg": "kilogram", "g": "gram", "lb": "pound", "N": "newton", "Hz": "hertz", "l": "liter",
         "rad": "radian", "K": "kelvin", "degC": "degree_Celsius", "celsius": "degree_Celsius",
         "degF": "degree_Fahrenheit", "fahrenheit": "degree_Fahrenheit"}
GROUP = {
    "L": ["meter", "m", "metre", "centimeter", "cm", "millimeter", "mm", "kilometer", "km", "inch",
          "foot", "ft", "yard", "mile"],
    "T": ["second", "s", "millisecond", "ms", "minute", "min", "hour", "h", "day"],
    "M": ["kilogram", "kg", "gram", "g", "pound", "lb"],
    # offset units: conversion is affine, not a scaling; they only ever stand alone with exponent 1
    "K": ["kelvin", "K", "degC", "degree_Celsius", "celsius", "degF", "degree_Fahrenheit", "fahrenheit",
          "degC", "degF"],
}
BASEDIM = {"L": "[length]", "T": "[time]", "M": "[mass]", "K": "[temperature]"}
TEMP = {"K": 1}
SPECIAL = {   # name -> dimension as {group: exp}
    "newton": {"M": 1, "L": 1, "T": -2}, "N": {"M": 1, "L": 1, "T": -2},
    "hertz": {"T": -1}, "Hz": {"T": -1}, "liter": {"L": 3}, "l": {"L": 3},
    "knot": {"L": 1, "T": -1}, "radian": {}, "rad": {}, "count": {},
}
NAME_DIM = {n: {g: 1} for g, ns in GROUP.items() for n in ns}
NAME_DIM.update(SPECIAL)
SHAPES = [{"L": 1}, {"T": 1}, {"M": 1}, {"L": 1, "T": -1}, {"L": 2}, {"L": 3}, {"M": 1, "L": 1, "T": -2},
          {"L": 1, "T": -2}, {"T": -1}, {}, {"M": 1, "L": -3}, {"L": 1}, {"T": 1}, {"L": 1, "T": -1}]
DIMSPECS = [("[length]", {"L": 1}), ("[time]", {"T": 1}), ("[mass]", {"M": 1}), ("[speed]", {"L": 1, "T": -1}),
            ("[velocity]", {"L": 1, "T": -1}), ("[force]", {"M": 1, "L": 1, "T": -2}), ("[volume]", {"L": 3}),
            ("[frequency]", {"T": -1}), ("[temperature]", {"K": 1})]
# shapes for plain-unit specs, untouched arguments, ret entries, check(): temperatures included
# (never for '=A' definitions: references multiply units, which offset units refuse)
SHAPES_T = SHAPES + [TEMP, TEMP]



def spec_items(s):
    return s["str"] if "str" in s else s["unit"]


def norm_dim(d):
    return {k: v for k, v in d.items() if v != 0}


def items_dim(items):
    d = {}
    for n, e in items:
        for g, x in NAME_DIM[n].items():
            d[g] = d.get(g, 0) + x * e
    return norm_dim(d)


def merge(items):
    d = {}
    for n, e in items:
        d[n] = d.get(n, 0) + e
    return [(n, e) for n, e in d.items() if e != 0]


def render(items):
    """[(name, int exp)] -> expression text accepted by pint's parser"""
    num = [f"{n}" if e == 1 else f"{n}**{e}" for n, e in items if e > 0]
    den = [f"{n}" if e == -1 else f"{n}**{-e}" for n, e in items if e < 0]
    if not items:
        return ""
    s = " * ".join(num) if num else "1"
    for d in den:
        s += " / " + d
    return s


def as_written(items):
    return {n: F(e) for n, e in merge(items)}


def canonical(items):
    return {n: F(e) for n, e in merge([(ALIAS.get(n, n), e) for n, e in items])}


def expr_for_dim(rng, dim):
    """a random unit expression (items) of the given dimension {group: exp}"""
    dim = dict(norm_dim(dim))
    if dim == TEMP:
        return [(rng.choice(GROUP["K"]), 1)]
    items = []
    if rng.random() < 0.3:
        cands = [n for n, d in SPECIAL.items() if d and all(abs(dim.get(g, 0)) >= abs(x) and dim.get(g, 0) * x > 0 for g, x in d.items())]
        if cands:
            n = rng.choice(cands)
            items.append((n, 1))
            for g, x in SPECIAL[n].items():
                dim[g] = dim.get(g, 0) - x
    for g, e in sorted(norm_dim(dim).items()):
        if abs(e) >= 2 and rng.random() < 0.3:
            s = 1 if e > 0 else -1
            items.append((rng.choice(GROUP[g]), s))
            items.append((rng.choice(GROUP[g]), e - s))
        else:
            items.append((rng.choice(GROUP[g]), e))
    if rng.random() < 0.08:
        items.append((rng.choice(["radian", "count"]), rng.choice([1, -1])))
    rng.shuffle(items)
    return merge(items)


def other_dim(rng, dim):
    while True:
        d = rng.choice(SHAPES_T)
        if norm_dim(d) != norm_dim(dim):
            return d


# ------------------------------------------------------------------ plans (JSON-able inputs)
def rnd_mag(rng, zero_p=0.08):
    r = rng.random()
    if r < zero_p:
        return F(0)
    if r < 0.6:
        return F(rng.choice([1, 2, 3, 5, 7, 12, 100, -1, -4, 254, 1000003]))
    return F(rng.randint(-50, 50) or 1, rng.choice([1, 2, 3, 7, 10, 127, 1000]))


def val_num(rng):
    return {"n": str(rnd_mag(rng))}


def val_qty(rng, dim, zero_p=0.08):
    return {"q": str(rnd_mag(rng, zero_p)), "u": [list(x) for x in expr_for_dim(rng, dim)]}


def val_dim(v):
    return items_dim([tuple(x) for x in v["u"]]) if "q" in v else {}


class World:
    """the implementation side"""

    def __init__(self):
        import pint
        self.pint = pint
        self.ureg = pint.UnitRegistry(non_int_type=F, cache_folder=None)
        # pristine registry: never goes through wraps; the oracles compute expectations here
        self.ref = pint.UnitRegistry(non_int_type=F, cache_folder=None)

        # every conversion of the working registry starts from cold conversion caches (see clear):
        # under F23 a float factor cached by one argument is found again, under an equal key, by a
        # later exact conversion of the same call; K observes wraps' own logic, not the cache (C13)
        orig = self.ureg._convert

        def cold(*a, **k):
            self.clear()
            return orig(*a, **k)
        self.ureg._convert = cold

    def clear(self):
        """cold conversion caches for every case: a float factor cached by an earlier string-spec
        call (finding F23) is found again under the equal exact container"""
        self.ureg._cache.conversion_factor.clear()
        self.ureg._cache.root_units.clear()

    def mag(self, s):
        fr = F(s)
        return int(fr) if fr.denominator == 1 else fr

    def value(self, v, reg=None):
        if v is None:
            return None
        if "n" in v:
            return self.mag(v["n"])
        return (reg or self.ureg).Quantity(self.mag(v["q"]), render([tuple(x) for x in v["u"]]))

    def spec(self, s, reg=None):
        if s is None:
            return None
        if "str" in s:
            return render([tuple(x) for x in s["str"]])
        if "unit" in s:
            return (reg or self.ureg).Unit(render([tuple(x) for x in s["unit"]]))
        return "=" + render([tuple(x) for x in s["ref"]])

    def errclass(self, e):
        p = self.pint
        if isinstance(e, p.DimensionalityError):
            return "EDim"
        if isinstance(e, p.UndefinedUnitError):
            return "EUndef"
        if isinstance(e, ZeroDivisionError):
            return "EZeroDiv"
        if isinstance(e, KeyError):
            return "EKey"
        if isinstance(e, TypeError):
            return "EType"
        if isinstance(e, ValueError):
            return "EValue"
        return "EOther"


def make_func(params, defaults, result, rec, hook=lambda: None):
    """def f(a, b=<default>, ...): rec.append((a, b, ...)); return result"""
    ns = {"_rec": rec, "_result": result, "_hook": hook}
    parts = []
    for p, d in zip(params, defaults):
        if d is _NODEFAULT:
            parts.append(p)
        else:
            ns["_d_" + p] = d
            parts.append(f"{p}=_d_{p}")
    src = f"def f({', '.join(parts)}):\n    _rec.append(({', '.join(params)},))\n    _hook()\n    return _result\n"
    exec(src, ns)
    return ns["f"]


_NODEFAULT = object()


# ------------------------------------------------------------------ Coq terms
def coq_val(w, x):
    """a Python argument object -> model [value]"""
    if isinstance(x, w.ureg.Quantity):
        return f"(VQty {coq_q(F(x.magnitude))} {coq_uc({k: F(v) for k, v in x._units.items()})})"
    return f"(VNum {coq_q(F(x))})"


def coq_pobj(w, x):
    if x is None:
        return "PNoneObj"
    if isinstance(x, (tuple, list)):
        return "(PTuple " + coq_list([coq_pobj(w, y) for y in x]) + ")"
    if isinstance(x, w.ureg.Quantity):
        m = x.magnitude
        if isinstance(m, (int, F)) and not isinstance(m, bool):
            return f"(PQty {coq_q(F(m))} false {coq_uc({k: F(v) for k, v in x._units.items()})})"
        if isinstance(m, float) and m == m and abs(m) != float("inf"):
            return f"(PQty {coq_q(F(m))} true {coq_uc({k: F(v) for k, v in x._units.items()})})"
        return "PNoneObj"
    if isinstance(x, (int, F)) and not isinstance(x, bool):
        return f"(PNum {coq_q(F(x))} false)"
    if isinstance(x, float) and x == x and abs(x) != float("inf"):
        return f"(PNum {coq_q(F(x))} true)"
    return "PNoneObj"


def coq_spec(w, s, obj):
    """model [spec]: string specs keep the names as written (wraps parses them without the
    registry); Unit objects contribute their own container"""
    if s is None:
        return "SNone"
    if "str" in s:
        return f"(SUnit {coq_uc(as_written([tuple(x) for x in s['str']]))} true)"
    if "unit" in s:
        return f"(SUnit {coq_uc({k: F(v) for k, v in obj._units.items()})} false)"
    return f"(SRef {coq_uc(as_written([tuple(x) for x in s['ref']]))})"


def coq_retspec_entry(w, s, obj):
    """`ret` entries are parsed WITH the registry: canonical names (hand-written alias map)"""
    if s is None:
        return "SNone"
    if "str" in s:
        return f"(SUnit {coq_uc(canonical([tuple(x) for x in s['str']]))} true)"
    if "unit" in s:
        return f"(SUnit {coq_uc({k: F(v) for k, v in obj._units.items()})} false)"
    return f"(SRef {coq_uc(as_written([tuple(x) for x in s['ref']]))})"


def coq_params(w, names, defaults):
    return coq_list([f"(Param {coq_str(n)} {coq_opt(None if d is _NODEFAULT else coq_val(w, d))})"
                     for n, d in zip(names, defaults)])


def coq_kw(w, kw):
    return coq_list([f"({coq_str(k)}, {coq_val(w, v)})" for k, v in kw])


# ------------------------------------------------------------------ independent reading of the spec list
def classify(specs):
    """'def' / 'dep' / 'unit' / 'none' per position — the documented rule: a reference made of a
    single name with power 1, seen for the first time, defines that name."""
    seen, out = set(), []
    for s in specs:
        if s is None:
            out.append(("none", None))
        elif "ref" in s:
            it = merge([tuple(x) for x in s["ref"]])
            if len(it) == 1 and it[0][1] == 1 and it[0][0] not in seen:
                seen.add(it[0][0])
                out.append(("def", it[0][0]))
            else:
                out.append(("dep", it))
        else:
            out.append(("unit", s))
    return out


# ------------------------------------------------------------------ generators
REFNAMES = ["A", "B", "C"]


def gen_specs(rng, n, malformed):
    specs = [None] * n
    kinds = [rng.choices(["none", "str", "unit", "ref"], [15, 30, 15, 40])[0] for _ in range(n)]
    refpos = [i for i, k in enumerate(kinds) if k == "ref"]
    ndefs = rng.randint(1, min(max(1, len(refpos) - rng.randint(0, 1)), 3)) if refpos else 0
    defpos = sorted(rng.sample(refpos, ndefs)) if refpos else []
    defnames = rng.sample(REFNAMES, ndefs)
    for i, k in enumerate(kinds):
        if k == "none":
            specs[i] = None
        elif k in ("str", "unit"):
            specs[i] = {k: [list(x) for x in expr_for_dim(rng, rng.choice(SHAPES_T))]}
    for i, nm in zip(defpos, defnames):
        specs[i] = {"ref": [[nm, 1]]}
    for i in refpos:
        if i in defpos:
            continue
        pool = defnames if not (malformed and rng.random() < 0.4) else REFNAMES
        form = rng.choice(["same", "mul", "sq", "div", "inv", "mix", "cube"])
        a, b = rng.choice(pool), rng.choice(pool)
        if form == "same":
            it = [(a, 1)]
        elif form == "mul":
            it = [(a, 1), (b, 1)]
        elif form == "sq":
            it = [(a, 2)]
        elif form == "div":
            it = [(a, 1), (b, -1)]
        elif form == "inv":
            it = [(a, -1)]
        elif form == "cube":
            it = [(a, 3)]
        else:
            it = [(a, 2), (b, -1)]
        specs[i] = {"ref": [list(x) for x in merge(it)]}
    # a Unit-object spec whose container equals a string spec of the same list would pick up the
    # string spec's cached float factor (F23) in the same call: keep such targets on one path
    strs = [canonical([tuple(y) for y in sp["str"]]) for sp in specs if sp is not None and "str" in sp]
    for i, sp in enumerate(specs):
        if sp is not None and "unit" in sp and canonical([tuple(y) for y in sp["unit"]]) in strs:
            specs[i] = {"str": sp["unit"]}
    return specs


def gen_values(rng, specs):
    """effective value per parameter: mostly compatible with its spec"""
    cl = classify(specs)
    vals = [None] * len(specs)
    defdims = {}
    for i, (k, x) in enumerate(cl):
        if k == "def":
            if rng.random() < 0.85:
                vals[i] = val_qty(rng, rng.choice(SHAPES), zero_p=0.15)
            else:
                vals[i] = {"n": str(rnd_mag(rng, 0.15))}
            defdims[x] = val_dim(vals[i])
    for i, (k, x) in enumerate(cl):
        if k == "none":
            vals[i] = val_qty(rng, rng.choice(SHAPES_T)) if rng.random() < 0.5 else val_num(rng)
        elif k == "unit":
            d = items_dim([tuple(y) for y in spec_items(x)])
            r = rng.random()
            if r < 0.82:
                vals[i] = val_qty(rng, d)
            elif r < 0.9:
                vals[i] = val_qty(rng, other_dim(rng, d))
            else:
                vals[i] = val_num(rng)
        elif k == "dep":
            d = {}
            for nm, e in x:
                for g, y in defdims.get(nm, {}).items():
                    d[g] = d.get(g, 0) + y * e
            d = norm_dim(d)
            if max([abs(v) for v in d.values()] + [0]) > 6:
                d = {}
            r = rng.random()
            if r < 0.8:
                vals[i] = val_qty(rng, d) if (d or rng.random() < 0.5) else val_num(rng)
            elif r < 0.9:
                vals[i] = val_qty(rng, other_dim(rng, d))
            else:
                vals[i] = val_num(rng)
    return vals


def gen_signature_and_call(rng, n, vals, malformed):
    names = ["a", "b", "c", "d", "e"][:n]
    d0 = rng.choice([n] * 2 + list(range(n + 1)))          # defaults on the suffix d0..n-1
    defaults, same = [], []
    for i in range(n):
        if i < d0:
            defaults.append(None)
            same.append(False)
        elif rng.random() < 0.65:
            defaults.append(vals[i])
            same.append(True)
        else:
            defaults.append(val_qty(rng, val_dim(vals[i])) if rng.random() < 0.7 else val_num(rng))
            same.append(False)
    k = rng.choice([0, n, n, rng.randint(0, n), rng.randint(0, n)])
    pos = [vals[i] for i in range(k)]
    kw = []
    for i in range(k, n):
        if same[i] and rng.random() < 0.7:
            continue
        kw.append([names[i], vals[i]])
    rng.shuffle(kw)
    kind = "valid"
    if malformed:
        kind = rng.choice(["missing", "surplus", "duplicate", "unknown"])
        if kind == "missing":
            req = [i for i in range(n) if i >= k and defaults[i] is None]
            if req:
                j = rng.choice(req)
                kw = [x for x in kw if x[0] != names[j]]
            elif k > 0:
                pos = pos[:-1]
                kw = [x for x in kw if x[0] != names[k - 1]]
                if defaults[k - 1] is not None:
                    kind = "valid-default"
            else:
                kind = "valid"
        elif kind == "surplus":
            pos = [vals[i] for i in range(n)] + [val_num(rng)]
            kw = []
        elif kind == "duplicate":
            if k > 0:
                kw.append([names[rng.randrange(k)], val_num(rng)])
            else:
                kind = "valid"
        else:
            kw.append(["zz", val_num(rng)])
    return names, defaults, pos, kw, kind


def gen_ret(rng, specs, malformed):
    defs = [x for k, x in classify(specs) if k == "def"]

    def entry():
        r = rng.random()
        if r < 0.25:
            return None
        if r < 0.5:
            return {"str": [list(x) for x in expr_for_dim(rng, rng.choice(SHAPES_T))]}
        if r < 0.65:
            return {"unit": [list(x) for x in expr_for_dim(rng, rng.choice(SHAPES_T))]}
        pool = defs if (defs and not (malformed and rng.random() < 0.3)) else (REFNAMES if malformed else defs)
        if not pool:
            return {"str": [list(x) for x in expr_for_dim(rng, rng.choice(SHAPES))]}
        a, b = rng.choice(pool), rng.choice(pool)
        it = rng.choice([[(a, 1)], [(a, 1), (b, 1)], [(a, 2)], [(a, 1), (b, -1)], [(a, -2)]])
        return {"ref": [list(x) for x in merge(it)]}

    def resval(e):
        # what the function returns for an entry: a number, rarely a Quantity
        if e is not None and ("str" in e or "unit" in e) and rng.random() < 0.15:
            d = items_dim([tuple(y) for y in spec_items(e)])
            return val_qty(rng, d if rng.random() < 0.8 else other_dim(rng, d))
        return val_num(rng)

    if rng.random() < 0.5:
        e = entry()
        ret = {"container": None, "items": [e]}
        result = {"tuple": False, "vals": [resval(e)]}
        if malformed and rng.random() < 0.1:
            ret = {"container": "tuple", "items": [e]}     # tuple ret, scalar result
    else:
        m = rng.randint(0, 3)
        items = [entry() for _ in range(m)]
        ret = {"container": rng.choice(["tuple", "list"]), "items": items}
        vals = [resval(e) for e in items]
        if malformed and rng.random() < 0.5:
            if rng.random() < 0.5 and vals:
                vals = vals[:-1]
            else:
                vals = vals + [val_num(rng)]
        result = {"tuple": True, "vals": vals}
    return ret, result


def ambiguous_error_order(plan):
    """one reference expression with BOTH an undefined name and a zero-magnitude argument under a
    negative exponent: which error comes first depends on the textual order of the expression, which
    a unit container does not keep; such plans are not generated"""
    eff = plan["effective"]
    if eff is None:
        return False
    cl = classify(plan["specs"])
    if len(cl) != len(eff):
        return False
    vbn = {x: eff[i] for i, (k, x) in enumerate(cl) if k == "def"}
    exprs = [x for k, x in cl if k == "dep"] + \
            [[tuple(y) for y in s["ref"]] for s in plan["ret"]["items"] if s is not None and "ref" in s]
    for it in exprs:
        undefined = any(nm not in vbn for nm, _ in it)
        zero = any(nm in vbn and e < 0 and F(vbn[nm].get("q", vbn[nm].get("n"))) == 0 for nm, e in it)
        if undefined and zero:
            return True
    return False


def gen_wraps_plan(rng, malformed):
    while True:
        plan = gen_wraps_plan1(rng, malformed)
        if not ambiguous_error_order(plan):
            return plan


def gen_wraps_plan1(rng, malformed):
    n = rng.randint(1, 5)
    specs = gen_specs(rng, n, malformed)
    vals = gen_values(rng, specs)
    names, defaults, pos, kw, kind = gen_signature_and_call(rng, n, vals, malformed and rng.random() < 0.6)
    ret, result = gen_ret(rng, specs, malformed)
    plan = {"kind": "wraps", "strict": rng.random() < 0.6, "names": names, "defaults": defaults,
            "specs": specs, "specs_scalar": False, "ret": ret, "result": result, "pos": pos, "kw": kw,
            "effective": vals if kind in ("valid", "valid-default") else None, "call_kind": kind}
    if kind == "valid-default":
        # the dropped positional falls back to its default
        eff = list(vals)
        eff[len(pos)] = defaults[len(pos)]
        plan["effective"] = eff
    if n == 1 and rng.random() < 0.3:
        plan["specs_scalar"] = True
    if malformed and rng.random() < 0.3:
        # wrong arity
        if rng.random() < 0.5 and len(specs) > 0:
            plan["specs"] = specs[:-1]
        else:
            plan["specs"] = specs + [rng.choice([None, {"str": [["m", 1]]}])]
        plan["specs_scalar"] = False
    return plan


def gen_check_plan(rng, malformed):
    n = rng.randint(1, 5)
    dims, vals = [], []
    for _ in range(n):
        r = rng.random()
        shape = rng.choice(SHAPES_T)
        if r < 0.2:
            dims.append(None)
        elif r < 0.45:
            named = [x for x in DIMSPECS if norm_dim(x[1]) == norm_dim(shape)]
            if named:
                nm = rng.choice(named)
                dims.append({"str": [[nm[0], 1]]})
            else:
                dims.append({"str": [[BASEDIM[g], e] for g, e in sorted(norm_dim(shape).items())]})
        elif r < 0.8:
            dims.append({"str": [list(x) for x in expr_for_dim(rng, shape)]})
        else:
            dims.append({"unit": [list(x) for x in expr_for_dim(rng, shape)]})
        r = rng.random()
        if r < 0.7:
            vals.append(val_qty(rng, shape) if (shape or rng.random() < 0.6) else val_num(rng))
        elif r < 0.9:
            vals.append(val_qty(rng, other_dim(rng, shape)))
        else:
            vals.append(val_num(rng))
    names, defaults, pos, kw, kind = gen_signature_and_call(rng, n, vals, malformed and rng.random() < 0.6)
    plan = {"kind": "check", "names": names, "defaults": defaults, "dims": dims, "pos": pos, "kw": kw,
            "effective": vals if kind in ("valid", "valid-default") else None, "call_kind": kind}
    if kind == "valid-default":
        eff = list(vals)
        eff[len(pos)] = defaults[len(pos)]
        plan["effective"] = eff
    if malformed and rng.random() < 0.4:
        plan["dims"] = dims[:-1] if rng.random() < 0.5 else dims + [None]
    return plan


# dimension spec items may name dimensions ([length]); they render like units
NAME_DIM.update({"[length]": {"L": 1}, "[time]": {"T": 1}, "[mass]": {"M": 1}, "[speed]": {"L": 1, "T": -1},
                 "[velocity]": {"L": 1, "T": -1}, "[force]": {"M": 1, "L": 1, "T": -2}, "[volume]": {"L": 3},
                 "[frequency]": {"T": -1}, "[temperature]": {"K": 1}})


# ------------------------------------------------------------------ running one plan on pint
def same_object(w, a, b):
    """untouched: same type, same magnitude, same units"""
    if isinstance(a, w.ureg.Quantity) or isinstance(b, w.ureg.Quantity):
        return (isinstance(a, w.ureg.Quantity) and isinstance(b, w.ureg.Quantity)
                and type(a.magnitude) is type(b.magnitude) and a.magnitude == b.magnitude
                and dict(a._units) == dict(b._units))
    return type(a) is type(b) and a == b


def srepr(x):
    """repr that survives pint's formatting problems with Fraction exponents (F18)"""
    try:
        return repr(x)
    except Exception:                           # noqa: BLE001
        if isinstance(x, (tuple, list)):
            return "(" + ", ".join(srepr(y) for y in x) + ")"
        return f"<{type(x).__name__} {getattr(x, '_magnitude', '?')!r} {dict(getattr(x, '_units', {}))!r}>"


def exact_num(x):
    return isinstance(x, (int, F)) and not isinstance(x, bool)


def canon(w, x):
    """a returned / received object up to what the property observes: type, magnitude type and value, units"""
    if isinstance(x, w.ureg.Quantity):
        return ("Quantity", type(x.magnitude).__name__, x.magnitude, tuple(sorted((k, F(v)) for k, v in x._units.items())))
    if isinstance(x, (tuple, list)):
        return (type(x).__name__, tuple(canon(w, y) for y in x))
    return (type(x).__name__, x)


def run_wraps(w, plan, quirks):
    """returns (list of coq case terms, list of oracle failures (key, desc)).  ONE decorator object
    serves the whole plan: the wrapper is called twice, the decorator is applied to a second and
    further functions (other deliveries): no use may differ from the first"""
    ureg = w.ureg
    fails = []
    names = plan["names"]
    n = len(names)
    defaults = [_NODEFAULT if d is None else w.value(d) for d in plan["defaults"]]
    spec_objs = [w.spec(s) for s in plan["specs"]]
    args_arg = spec_objs[0] if plan["specs_scalar"] else (list(spec_objs) if len(spec_objs) % 2 else tuple(spec_objs))
    ret = plan["ret"]
    ret_objs = [w.spec(s) for s in ret["items"]]
    ret_arg = ret_objs[0] if ret["container"] is None else (tuple(ret_objs) if ret["container"] == "tuple" else list(ret_objs))
    res_vals = [w.value(v) for v in plan["result"]["vals"]]
    result = tuple(res_vals) if plan["result"]["tuple"] else res_vals[0]
    pos = [w.value(v) for v in plan["pos"]]
    kw = [(k, w.value(v)) for k, v in plan["kw"]]
    rec = []
    f = make_func(names, defaults, result, rec, w.clear)

    # ---- implementation
    w.clear()
    decor_err = call_err = None
    out = None
    decorator = None
    try:
        decorator = ureg.wraps(ret_arg, args_arg, plan["strict"])
        wrapped = decorator(f)
    except Exception as e:                      # noqa: BLE001
        decor_err = e
    if decor_err is None:
        try:
            out = wrapped(*pos, **dict(kw))
        except Exception as e:                  # noqa: BLE001
            call_err = e
    seen = list(rec[0]) if rec else None
    if len(rec) > 1:
        fails.append(("called-twice", "the wrapped function was called more than once"))

    # ---- later uses of the same wrapper / the same decorator object
    def outcome(err, seen_, out_):
        return ("raised", w.errclass(err), None if seen_ is None else canon(w, seen_)) if err is not None \
            else ("returned", canon(w, seen_), canon(w, out_))

    def show(o_):
        return f"{o_[0]} {o_[1]!r}" if o_[0] == "raised" else f"returned {o_[2]!r}"
    first = outcome(call_err, seen, out) if decor_err is None else None
    later = []                                   # (call_err, seen, out) of the later uses, for K
    if decor_err is None:
        for use in ("second call of the same wrapper", "third call of the same wrapper",
                    "first call of a second function decorated by the same decorator object"):
            rec_u = rec
            target = wrapped
            if use.startswith("first call of a second"):
                rec_u = []
                target = decorator(make_func(names, defaults, result, rec_u, w.clear))
            del rec[:]
            w.clear()
            err_u = out_u = None
            try:
                out_u = target(*pos, **dict(kw))
            except Exception as e:              # noqa: BLE001
                err_u = e
            seen_u = list(rec_u[0]) if rec_u else None
            later.append((err_u, seen_u, out_u))
            o_u = outcome(err_u, seen_u, out_u)
            if o_u != first:
                kind = "repeat-call-differs" if "same wrapper" in use else "decorator-reuse-differs"
                what = "return" if (o_u[0] == first[0] == "returned" and o_u[1] == first[1]) else "outcome"
                fails.append((f"{kind}:{what}",
                              f"{use}, same arguments: {show(o_u)}; the first call: {show(first)}"))

    # ---- Coq case
    fres = ("(FTuple " + coq_list([coq_val(w, x) for x in res_vals]) + ")") if plan["result"]["tuple"] \
        else f"(FScalar {coq_val(w, res_vals[0])})"
    rs = [coq_retspec_entry(w, s, o) for s, o in zip(ret["items"], ret_objs)]
    retspec = f"(RScalar {rs[0]})" if ret["container"] is None else f"(RTuple {coq_list(rs)})"
    def kterm(cerr, seen_, out_):
        if decor_err is not None:
            o = f"(WDecorErr {w.errclass(decor_err)})"
        elif cerr is not None:
            o = f"(WCallErr {w.errclass(cerr)} {coq_opt(None if seen_ is None else coq_list([coq_pobj(w, x) for x in seen_]))})"
        else:
            o = f"(WDone {coq_list([coq_pobj(w, x) for x in seen_])} {coq_pobj(w, out_)})"
        return (f"KWraps (Quirks {coq_bool(quirks[0])} {coq_bool(quirks[1])}) {coq_bool(plan['strict'])} "
                f"{coq_list([coq_spec(w, s, o_) for s, o_ in zip(plan['specs'], spec_objs)])} {retspec} "
                f"{coq_params(w, names, defaults)} {fres} {coq_list([coq_val(w, x) for x in pos])} {coq_kw(w, kw)} {o}")
    term = [kterm(call_err, seen, out)]
    # the model keeps no state between calls (C17_repeated_calls): a later use that is observed to
    # differ from the first is also put before the model
    for lu in later:
        if outcome(*lu) != first:
            term.append(kterm(*lu))

    # ---- property oracles (on pint alone)
    # arity
    if len(plan["specs"]) != n:
        if not isinstance(decor_err, TypeError):
            fails.append(("arity-not-checked", f"{len(plan['specs'])} specs for {n} parameters accepted at decoration"))
        return term, fails
    if decor_err is not None:
        fails.append((f"unexpected-decoration-error:{w.errclass(decor_err)}", repr(decor_err)))
        return term, fails
    eff = plan["effective"]
    if eff is None:
        # invalid binding: the call must not silently succeed
        if call_err is None:
            fails.append((f"invalid-call-accepted:{plan['call_kind']}", "a call with an invalid binding returned normally"))
        return term, fails
    effv = [w.value(v) for v in eff]              # the objects handed to the decorated function
    R = w.ref                                     # expectations: pristine registry, q.to(unit)
    effr = [w.value(v, R) for v in eff]
    resr = [w.value(v, R) for v in plan["result"]["vals"]]
    cl = classify(plan["specs"])
    vbn = {x: effr[i] for i, (k, x) in enumerate(cl) if k == "def"}

    def units_of(v):
        return v.units if isinstance(v, R.Quantity) else R.Unit("")

    problems, expected, zerodiv = set(), [None] * n, False
    for i, (k, x) in enumerate(cl):
        v = effr[i]
        if k == "none":
            expected[i] = ("same", effv[i])
        elif k == "def":
            expected[i] = ("num", v.magnitude if isinstance(v, R.Quantity) else v)
        elif k == "unit":
            target = R.Unit(render([tuple(y) for y in spec_items(x)]))
            if isinstance(v, R.Quantity):
                if R.get_dimensionality(v) != R.get_dimensionality(target):
                    problems.add("EDim")
                else:
                    expected[i] = ("num", v.to(target).magnitude)
            elif plan["strict"]:
                problems.add("EValue")
            else:
                expected[i] = ("same", effv[i])
        else:
            if any(nm not in vbn for nm, _ in x):
                problems.add("EKey")
                continue
            target = R.Unit("")
            for nm, e in x:
                target = target * units_of(vbn[nm]) ** e
                mg = vbn[nm].magnitude if isinstance(vbn[nm], R.Quantity) else vbn[nm]
                if e < 0 and mg == 0:
                    zerodiv = True
            src = v if isinstance(v, R.Quantity) else R.Quantity(v)
            if R.get_dimensionality(src) != R.get_dimensionality(target):
                problems.add("EDim")
            else:
                expected[i] = ("num", src.to(target).magnitude)
    # return value
    ret_expected = None
    if not problems:
        items = ret["items"]
        if ret["container"] is not None and not plan["result"]["tuple"]:
            problems.add("EType")
        elif ret["container"] is None and plan["result"]["tuple"]:
            ret_expected = None          # not claimed (array magnitude)
        else:
            exp_items = []
            for j in range(max(len(items), len(res_vals))):
                s = items[j] if j < len(items) else None
                if j >= len(res_vals):
                    if s is not None:
                        if "ref" in s and any(nm not in vbn for nm, _ in s["ref"]):
                            problems.add("EKey")
                        if "ref" in s:
                            for nm, e in s["ref"]:
                                if nm in vbn and e < 0 and \
                                        (vbn[nm].magnitude if isinstance(vbn[nm], R.Quantity) else vbn[nm]) == 0:
                                    zerodiv = True
                        problems.add("EType")
                    exp_items.append(("none", None))
                    continue
                r = resr[j]
                if s is None:
                    exp_items.append(("same", res_vals[j]))
                    continue
                if "ref" in s:
                    if any(nm not in vbn for nm, _ in s["ref"]):
                        problems.add("EKey")
                        continue
                    u = R.Unit("")
                    for nm, e in s["ref"]:
                        u = u * units_of(vbn[nm]) ** e
                        mg = vbn[nm].magnitude if isinstance(vbn[nm], R.Quantity) else vbn[nm]
                        if e < 0 and mg == 0:
                            zerodiv = True
                else:
                    u = R.Unit(render([tuple(y) for y in spec_items(s)]))
                if isinstance(r, R.Quantity):
                    if R.get_dimensionality(r) != R.get_dimensionality(u):
                        problems.add("EDim")
                        continue
                    exp_items.append(("qty", (r.to(u).magnitude, u)))
                else:
                    exp_items.append(("qty", (r, u)))
            ret_expected = exp_items

    got = None if call_err is None else w.errclass(call_err)
    if got == "EZeroDiv" and zerodiv:
        fails.append(("zerodiv-ref-negative-exponent",
                      "a reference with a negative exponent on an argument of magnitude 0 raises ZeroDivisionError "
                      "(only the units of the referenced argument are needed)"))
        return term, fails
    if problems:
        if got is None:
            fails.append((f"missing-error:{'+'.join(sorted(problems))}", "the call returned normally"))
        elif got not in problems:
            fails.append((f"wrong-error:{got}-instead-of-{'+'.join(sorted(problems))}", repr(call_err)))
        return term, fails
    if got is not None:
        fails.append((f"unexpected-error:{got}", repr(call_err)))
        return term, fails
    # received magnitudes
    for i, (k, x) in enumerate(cl):
        how, e = expected[i]
        r = seen[i]
        if how == "same":
            if not same_object(w, r, e):
                fails.append((f"touched:{k}", f"parameter {names[i]}: received {srepr(r)}, given {srepr(e)}"))
        else:
            if isinstance(r, ureg.Quantity) or isinstance(r, bool) or not isinstance(r, (int, F, float)):
                fails.append((f"wrong-magnitude:{k}", f"parameter {names[i]}: received {srepr(r)}, expected {srepr(e)}"))
            elif not (exact_num(r) and r == e):
                near = abs(F(r) - F(e)) <= abs(F(e)) / 10 ** 9 if r == r and abs(r) != float("inf") else False
                if near and k == "unit" and isinstance(spec_objs[i], str):
                    fails.append(("inexact-string-spec",
                                  f"parameter {names[i]} (spec {spec_objs[i]!r}): received {srepr(r)}, "
                                  f"exact conversion gives {srepr(e)}"))
                elif near and k == "dep" and not isinstance(effv[i], ureg.Quantity):
                    fails.append(("inexact-bare-dependent",
                                  f"parameter {names[i]} (bare number {srepr(effv[i])} on a dependent spec): "
                                  f"received {srepr(r)}, exact conversion gives {srepr(e)}"))
                elif near:
                    fails.append((f"inexact:{k}", f"parameter {names[i]}: received {srepr(r)}, expected {srepr(e)}"))
                else:
                    fails.append((f"wrong-magnitude:{k}", f"parameter {names[i]}: received {srepr(r)}, expected {srepr(e)}"))
    # returned object
    def ret_ok(out_):
        if ret["container"] is not None and type(out_).__name__ != ret["container"]:
            return False
        outs = list(out_) if ret["container"] is not None else [out_]
        ok = len(outs) == len(ret_expected)
        if ok:
            for o_, (how, e) in zip(outs, ret_expected):
                if how == "none":
                    ok = ok and o_ is None
                elif how == "same":
                    ok = ok and same_object(w, o_, e)
                else:
                    ok = ok and isinstance(o_, ureg.Quantity) and exact_num(o_.magnitude) and o_.magnitude == e[0] \
                        and {k_: F(v_) for k_, v_ in o_._units.items()} == {k_: F(v_) for k_, v_ in e[1]._units.items()}
        return ok
    if ret_expected is not None:
        if not ret_ok(out):
            fails.append(("ret-wrong", f"returned {srepr(out)}"))
        for (err_u, _, out_u), use in zip(later, ("second call", "third call", "second function, same decorator object")):
            if err_u is None and not ret_ok(out_u):
                fails.append(("ret-wrong:later-use", f"{use}: returned {srepr(out_u)}; the first call returned {srepr(out)}"))
    # binding independence: same effective values, other deliveries
    for mode in ("positional", "keyword"):
        rec2 = []
        f2 = make_func(names, defaults, result, rec2, w.clear)
        w.clear()
        try:
            w2 = decorator(f2)                    # the same decorator object again
            if mode == "positional":
                out2 = w2(*effv)
            else:
                out2 = w2(**dict(zip(names, effv)))
        except Exception as e:                  # noqa: BLE001
            fails.append((f"binding-dependent:{mode}", f"{mode} delivery raised {srepr(e)}"))
            continue
        if ret_expected is not None and not ret_ok(out2):
            fails.append((f"ret-wrong:{mode}-delivery",
                          f"{mode} delivery through the same decorator object returned {srepr(out2)}; "
                          f"the first call returned {srepr(out)}"))
        if len(rec2) != 1 or len(rec2[0]) != n:
            fails.append((f"binding-dependent:{mode}", f"{mode} delivery: received {srepr(rec2)} vs {srepr(seen)}"))
            continue
        for i, (a, b) in enumerate(zip(rec2[0], seen)):
            if same_object(w, a, b):
                continue
            nums = all(isinstance(x, (int, F, float)) and not isinstance(x, bool) and x == x for x in (a, b))
            if nums and cl[i][0] == "unit" and isinstance(spec_objs[i], str) and abs(F(a) - F(b)) <= abs(F(b)) / 10 ** 9:
                # F23: whether the float factor or a cached exact one is used depends on the delivery
                # (comparing a Quantity default with Parameter.empty warms the conversion cache)
                fails.append(("inexact-string-spec",
                              f"parameter {names[i]} (spec {spec_objs[i]!r}): {mode} delivery hands over {srepr(a)}, "
                              f"the original delivery {srepr(b)}"))
            else:
                fails.append((f"binding-dependent:{mode}",
                              f"{mode} delivery: parameter {names[i]} received {srepr(a)} vs {srepr(b)}"))
    return term, fails


def run_check(w, plan):
    ureg = w.ureg
    fails = []
    names = plan["names"]
    n = len(names)
    defaults = [_NODEFAULT if d is None else w.value(d) for d in plan["defaults"]]
    dim_objs = [w.spec(s) for s in plan["dims"]]
    pos = [w.value(v) for v in plan["pos"]]
    kw = [(k, w.value(v)) for k, v in plan["kw"]]
    rec = []
    f = make_func(names, defaults, 7, rec)
    decor_err = call_err = None
    try:
        wrapped = ureg.check(*dim_objs)(f)
    except Exception as e:                      # noqa: BLE001
        decor_err = e
    if decor_err is None:
        try:
            wrapped(*pos, **dict(kw))
        except Exception as e:                  # noqa: BLE001
            call_err = e
    seen = list(rec[0]) if rec else None

    def cdim(s, o_):
        if s is None:
            return "None"
        if "unit" in s:
            return f"(Some {coq_uc({k: F(v) for k, v in o_._units.items()})})"
        return f"(Some {coq_uc(canonical([tuple(x) for x in s['str']]))})"
    if decor_err is not None:
        o = f"(CDecorErr {w.errclass(decor_err)})"
    elif call_err is not None:
        o = f"(CCallErr {w.errclass(call_err)})"
    else:
        o = f"(CDone {coq_list([coq_pobj(w, x) for x in seen])})"
    term = (f"KCheck {coq_list([cdim(s, o_) for s, o_ in zip(plan['dims'], dim_objs)])} "
            f"{coq_params(w, names, defaults)} {coq_list([coq_val(w, x) for x in pos])} {coq_kw(w, kw)} {o}")

    if len(plan["dims"]) != n:
        if not isinstance(decor_err, TypeError):
            fails.append(("arity-not-checked", f"check: {len(plan['dims'])} dimensions for {n} parameters accepted"))
        return term, fails
    if decor_err is not None:
        fails.append((f"unexpected-decoration-error:{w.errclass(decor_err)}", repr(decor_err)))
        return term, fails
    eff = plan["effective"]
    if eff is None:
        if call_err is None:
            fails.append((f"invalid-call-accepted:{plan['call_kind']}", "check: invalid binding returned normally"))
        return term, fails
    effv = [w.value(v) for v in eff]
    differs = False
    for s, o_, v in zip(plan["dims"], dim_objs, effv):
        if s is None:
            continue
        if ureg.get_dimensionality(v) != ureg.get_dimensionality(o_):
            differs = True
    raised = isinstance(call_err, w.pint.DimensionalityError)
    if call_err is not None and not raised:
        fails.append((f"check-unexpected-error:{w.errclass(call_err)}", repr(call_err)))
    elif raised != differs:
        fails.append(("check-iff", f"dimensionalities differ: {differs}; DimensionalityError raised: {raised}"))
    elif not raised and not all(same_object(w, a, b) for a, b in zip(seen, effv)):
        fails.append(("check-touched", f"received {srepr(seen)} for {srepr(effv)}"))
    return term, fails


# ------------------------------------------------------------------ context-mediated conversions (oracle only)
CTX_PAIRS = [   # (units of the argument, declared units) convertible only inside context 'sp'
    (["nanometer", "micrometer", "angstrom", "m", "cm"], ["hertz", "Hz", "terahertz", "1/s", "kHz"]),
    (["hertz", "THz", "gigahertz", "1/s"], ["nanometer", "um", "meter", "mm"]),
]


def gen_context_plan(rng):
    src, dst = rng.choice(CTX_PAIRS)
    n = rng.randint(1, 3)
    i = rng.randrange(n)                                   # the parameter that converts through the context
    mags = [str(F(rng.randint(1, 900), rng.choice([1, 1, 2, 7]))) for _ in range(3)]
    return {"kind": "context", "n": n, "i": i, "spec": rng.choice(dst), "as_unit": rng.random() < 0.3,
            "calls": [[m, rng.choice(src)] for m in mags], "strict": rng.random() < 0.5,
            "delivery": rng.choice(["positional", "keyword", "default"]),
            "order": rng.choice(["inside-first", "outside-first"])}


def run_context(w, plan):
    """wraps on a parameter whose conversion exists only while context 'sp' is active: the function
    must receive q.to(unit) as computed inside the context (several calls through ONE wrapper), and
    the same wrapper must refuse the call with DimensionalityError outside the context"""
    ureg, R = w.ureg, w.ref
    fails = []
    names = ["a", "b", "c"][:plan["n"]]
    i = plan["i"]
    spec = ureg.Unit(plan["spec"]) if plan["as_unit"] else plan["spec"]
    specs = [None] * plan["n"]
    specs[i] = spec
    qs = [ureg.Quantity(w.mag(m), u) for m, u in plan["calls"]]
    expected = []
    with R.context("sp"):
        expected = [R.Quantity(w.mag(m), u).to(plan["spec"]).magnitude for m, u in plan["calls"]]
    defaults = [_NODEFAULT] * plan["n"]
    if plan["delivery"] == "default":
        for j in range(i, plan["n"]):
            defaults[j] = qs[0] if j == i else 5
    rec = []
    f = make_func(names, defaults, 1, rec)
    wrapped = ureg.wraps(None, specs, plan["strict"])(f)

    def call(q):
        others = {nm: 5 for j, nm in enumerate(names) if j != i}
        if plan["delivery"] == "positional":
            return wrapped(*[q if j == i else 5 for j in range(plan["n"])])
        if plan["delivery"] == "default" and q is qs[0]:
            return wrapped(*[5 for j in range(i)])
        return wrapped(**dict(others, **{names[i]: q}))

    def outside(tag):
        rec.clear()
        try:
            call(qs[0])
        except w.pint.DimensionalityError:
            return
        except Exception as e:                  # noqa: BLE001
            fails.append((f"context-outside:{w.errclass(e)}", f"{tag}: raised {srepr(e)} instead of DimensionalityError"))
            return
        fails.append(("context-outside:no-DimensionalityError",
                      f"{tag}: {plan['calls'][0]} declared {plan['spec']!r} outside any context was handed over as "
                      f"{srepr(rec[0][i]) if rec else '?'} instead of raising DimensionalityError"))

    if plan["order"] == "outside-first":
        outside("before the context was ever entered")
    with ureg.context("sp"):
        for q, e, c in zip(qs, expected, plan["calls"]):
            rec.clear()
            try:
                call(q)
            except Exception as ex:             # noqa: BLE001
                fails.append((f"context-inside:{w.errclass(ex)}", f"inside 'sp': {c} declared {plan['spec']!r} raised {srepr(ex)}"))
                continue
            r = rec[0][i]
            if not (exact_num(r) and r == e):
                fails.append(("context-inside:wrong-magnitude",
                              f"inside 'sp': {c} declared {plan['spec']!r}: received {srepr(r)}, q.to() gives {srepr(e)}"))
    outside("after the context was left")
    return fails


# ------------------------------------------------------------------ defect switches (DESIGN 2.6)
def detect_quirks(w):
    """replay the two _refuted witnesses on the implementation"""
    ureg = w.ureg
    Q = ureg.Quantity
    # a witness that does anything but reproduce its listed defect (another exception included)
    # selects the repaired switch: whatever else is wrong is for the streams and oracles to report
    got = []
    try:
        ureg.wraps(None, "m/s")(lambda a: got.append(a))(Q(F(1), "km/hour"))
        str_float = len(got) == 1 and isinstance(got[0], (int, F, float)) and not isinstance(got[0], bool) \
            and not (exact_num(got[0]) and got[0] == F(5, 18)) and abs(F(got[0]) - F(5, 18)) < F(1, 10 ** 9)
    except Exception:                           # noqa: BLE001
        str_float = False
    got2 = []
    try:
        ureg.wraps(None, ["=C", "=B", "=C/B"])(lambda c, b, a: got2.append(a))(Q(1, "mile**2"), Q(12, "mm**2"), 16)
        e2 = F(1, 161874256896)                 # 16 mm**2 / mile**2
        bare_float = len(got2) == 1 and isinstance(got2[0], (int, F, float)) and not isinstance(got2[0], bool) \
            and not (exact_num(got2[0]) and got2[0] == e2) and abs(F(got2[0]) - e2) < e2 / 10 ** 9
    except Exception:                           # noqa: BLE001
        bare_float = False
    try:
        ureg.wraps(None, ["=A", "=A**-1"])(lambda a, b: None)(Q(0, "m"), Q(2, "1/m"))
        replace_mag = False
    except ZeroDivisionError:
        replace_mag = True
    except Exception:                           # noqa: BLE001
        replace_mag = False
    return str_float or bare_float, replace_mag, str_float, bare_float


# ------------------------------------------------------------------ the check
def table_cases(w, rng, count):
    """the hand-written table of Model/WrapsRun.v against pint's own conversion"""
    ureg = w.ref
    out = []
    allnames = sorted(n for n in NAME_DIM if not n.startswith("["))
    for n in allnames:
        d = ureg.get_dimensionality(n)
        out.append((f"KDim {coq_uc({n: F(1)})} (Ok {coq_uc({k: F(v) for k, v in d.items()})})", {"dim": n}))
    for _ in range(count):
        shape = rng.choice(SHAPES_T)
        a, b = expr_for_dim(rng, shape), expr_for_dim(rng, shape if rng.random() < 0.85 else other_dim(rng, shape))
        m = rnd_mag(rng)
        try:
            r = ureg.Quantity(m, ureg.Unit(render(a))).to(ureg.Unit(render(b))).magnitude
            rt = f"(Ok {coq_q(F(r))})" if exact_num(r) else "(Err EOther)"
        except w.pint.DimensionalityError:
            rt = "(Err EDim)"
        out.append((f"KConv {coq_uc(as_written(a))} {coq_uc(as_written(b))} {coq_q(m)} {rt}",
                    {"conv": [render(a), render(b), str(m)]}))
    return out


def run(ck):
    rng = random.Random(ck.seed)
    thorough = ck.tier == "thorough"
    ck.rule = ("random signatures of 1-5 parameters (defaults on a suffix), spec lists mixing None / unit strings / "
               "Unit objects / '=A' '=A*B' '=A**2' '=A/B' '=A**-1' references, effective values mostly compatible "
               "(10% incompatible, 10-15% bare numbers, zero magnitudes), delivery positional / keyword / default, "
               "strict on/off, scalar / tuple / list ret with numbers or Quantities returned; offset units (degC, degF, kelvin: "
               "affine conversion) on plain-unit specs / ret / check; an oracle-only stream of conversions that exist only "
               "inside context 'sp' (several calls through one wrapper, refusal outside the context); malformed stream: wrong "
               "arity, missing / surplus / duplicated / unknown arguments, undefined references, result length "
               "mismatch; check(): dimension names, unit strings, Unit objects. Fraction registry. non-trivial = "
               "distinct (plan) with at least one non-None spec")
    ck.assumptions += [
        "parameter kinds: positional-or-keyword only; no *args/**kwargs; string arguments, offset units, arrays are outside the model",
        "set iteration over small ints (argument indices) is ascending in CPython: the first failing index of a pass decides the error class",
        "conversion itself is a field of the model (us_conv); for K it is a hand-written table of 45 names, validated against pint per run (KConv/KDim)",
        "under switch q_float_leak the model only predicts an approximation (1e-12 relative) for string-spec / bare-dependent conversions; binary floats are not modelled",
        "the working registry's conversion caches are emptied before every conversion (instance-level wrapper around ureg._convert): cache pollution by F23's float factors is C13's subject",
    ]
    targets = ["Properties/C17.vo", "Model/WrapsRun.vo"]
    from .common import COQ
    if not (COQ / "Properties" / "C17.v").exists():
        targets = ["Model/WrapsRun.vo"]
        ck.broken.append("Properties/C17.v missing")
    if not ck.coq_build(targets):
        return

    w = World()
    quirks = detect_quirks(w)
    ck.extra["defect_switches"] = {"q_float_leak": quirks[0], "q_replace_mag": quirks[1]}
    if quirks[3]:
        ck.violation("inexact-bare-dependent",
                     "Fraction registry: wraps(None, ['=C/B', '=B', '=C']) hands the bare number 16 over as a float",
                     {"kind": "witness", "ret": None, "args": ["=C/B", "=B", "=C"],
                      "call": ["16", "Q(12,'mm**2')", "Q(1,'mile**2')"]})
    if quirks[2]:
        ck.violation("inexact-string-spec",
                     "Fraction registry: wraps(None, 'm/s') hands Q(1, 'km/hour') over as an inexact number instead of 5/18",
                     {"kind": "witness", "ret": None, "args": "m/s", "call": "Q(Fraction(1), 'km/hour')"})
    if quirks[1]:
        ck.violation("zerodiv-ref-negative-exponent",
                     "wraps(None, ['=A', '=A**-1'])(Q(0, 'm'), Q(2, '1/m')) raises ZeroDivisionError",
                     {"kind": "witness", "ret": None, "args": ["=A", "=A**-1"], "call": ["Q(0,'m')", "Q(2,'1/m')"]})

    cases, fails_all = [], []

    def guarded(fn, *a):
        """a crash of the harness itself on one plan is an outcome too: reported with the plan as replay"""
        try:
            return fn(*a)
        except Exception as e:                  # noqa: BLE001
            import traceback
            tb = traceback.extract_tb(e.__traceback__)[-1]
            return None, [(f"harness-exception:{type(e).__name__}",
                           f"{type(e).__name__}: {e} at {tb.filename.rsplit('/', 1)[-1]}:{tb.lineno} while running this plan")]

    def add(term, plan, fails):
        for t_ in (term if isinstance(term, list) else ([] if term is None else [term])):
            cases.append((t_, plan))
        for key, desc in fails:
            fails_all.append((key, desc, plan))

    for term, d in table_cases(w, rng, 1500 if thorough else 300):
        cases.append((term, d))
        ck.case(key=("table", json.dumps(d)), nontrivial=True)
        ck.count("table (KConv/KDim)")

    n_wraps = (24000 if thorough else 2600)
    n_check = (8000 if thorough else 900)
    for i in range(n_wraps):
        malformed = rng.random() < 0.18
        plan = gen_wraps_plan(rng, malformed)
        term, fails = guarded(run_wraps, w, plan, quirks)
        add(term, plan, fails)
        if term is None:
            continue
        nontriv = any(s is not None for s in plan["specs"])
        ck.case(key=("wraps", json.dumps(plan, sort_keys=True)), nontrivial=nontriv,
                sample=plan if len(ck.samples) < 4 and nontriv else None)
        ck.count("wraps malformed" if malformed else "wraps valid")
        o = term[0].rsplit("(W", 1)[1].split(" ", 1)[0]
        ck.count("wraps outcome W" + o.rstrip(")"))
        cl_ = classify(plan["specs"])
        for k, _ in cl_:
            ck.count("spec " + k)
        defat = {x: j for j, (k, x) in enumerate(cl_) if k == "def"}
        if any(k == "dep" and any(defat.get(nm, -1) > j for nm, _ in x) for j, (k, x) in enumerate(cl_)):
            ck.count("forward reference (dependent before its definition)")
        ck.count(f"delivery pos={len(plan['pos'])} kw={len(plan['kw'])} of {len(plan['names'])}"
                 if len(plan["names"]) <= 2 else "delivery (3-5 params)")
    for i in range(n_check):
        malformed = rng.random() < 0.15
        plan = gen_check_plan(rng, malformed)
        term, fails = guarded(run_check, w, plan)
        add(term, plan, fails)
        if term is None:
            continue
        ck.case(key=("check", json.dumps(plan, sort_keys=True)), nontrivial=any(s is not None for s in plan["dims"]),
                sample=plan if i == 0 else None)
        ck.count("check malformed" if malformed else "check valid")
        ck.count("check outcome " + term.rsplit("(C", 1)[1].split(" ", 1)[0].rstrip(")"))

    for i in range(400 if thorough else 120):
        plan = gen_context_plan(rng)
        for key, desc in guarded(lambda *a: (None, run_context(*a)), w, plan)[1]:
            fails_all.append((key, desc, plan))
        ck.case(key=("context", json.dumps(plan, sort_keys=True)), nontrivial=True, sample=plan if i == 0 else None)
        ck.count("context stream (oracle only)")

    bad = ck.coq_mismatches("c17", HEADER, [c for c, _ in cases], "c17_ok")
    ck.extra["model_vs_impl_cases"] = len(cases)
    ck.extra["model_vs_impl_disagreements"] = None if bad is None else len(bad)
    seen = set()
    for key, desc, plan in fails_all:
        ck.count("oracle failure " + key)
        if key in seen:
            continue
        seen.add(key)
        ck.violation(key, desc, plan)
    if bad:
        first = cases[bad[0]]
        shown = ck.coq_show(HEADER, f"c17_ok ({first[0]})")
        if not [f for f in fails_all if ck._match_known(f[0]) is None]:
            ck.violation("correspondence", "model and implementation disagree; no property oracle failed",
                         {"first_disagreement": first[1], "coq_case": first[0], "n_disagreements": len(bad), "coq": shown},
                         no_input=True)
        ck.broken.append(f"correspondence Model.WrapsRun.c17_ok: {len(bad)} disagreements, first: {json.dumps(first[1])[:600]}")


def replay(ck, path):
    data = json.load(open(path))
    print(json.dumps(data, indent=1)[:4000])
    plan = data.get("replay", {})
    if not isinstance(plan, dict) or plan.get("kind") not in ("wraps", "check", "context"):
        return 0
    w = World()
    if plan["kind"] == "context":
        term, fails = None, run_context(w, plan)
    elif plan["kind"] == "wraps":
        term, fails = run_wraps(w, plan, detect_quirks(w))
    else:
        term, fails = run_check(w, plan)
    for key, desc in fails:
        print(f"ORACLE-FAILS {key}: {desc}")
    print("reproduced" if any(k == data.get("key") for k, _ in fails) else "not reproduced")
    return 1 if fails else 0
