"""C18 — copy, pickle and tuple serialisation preserve objects; registries stay isolated.

Theorems: coq/Properties/C18.v over coq/Model/Serial.v (+ the exception table that the
translator T5, harness/t5_errors.py, regenerates from /repo into coq/Gen/ErrorsTable.v).
Correspondence K: coq/Model/SerialRun.v (`c18_ok`, `uhist_ok`), evaluated inside Coq.
Oracles (this file) decide the property statement on the real objects:
  * pickle protocols 0-5, copy, deepcopy, from_tuple(to_tuple()) of quantities / units /
    measurements / UnitsContainer / ParserHelper  -> canonical equality incl. exponent types,
    non_int_type, class and registry attachment; independence of copies;
  * every exception class found by T5, random arguments -> same type, fields, str;
  * unpickling in FRESH subprocesses (fresh application registry), prefixed units included;
  * registry pairs (fresh / deep-copied / application / lazy): definitions applied to one do
    not show in the other; operators across registries raise ValueError;
  * LazyRegistry() answers == UnitRegistry(on_redefinition='raise') answers.
Canonical equality of measurements / ufloat magnitudes is (nominal, std_dev, units), not `==`.
`==` across registries is not constrained.
"""
import copy
import json
import logging
import math
import operator
import os
import pickle
import random
import subprocess
import sys
import tempfile
import warnings
from decimal import Decimal
from fractions import Fraction as F

from .common import REPO, VERIF, coq_bool, coq_list, coq_opt, coq_q, coq_str, coq_uc

HEADER = ("From PintV Require Import Model.UC Model.Serial Model.SerialRun Gen.ErrorsTable.\n"
          "Open Scope string_scope.\n")
NIT = {float: "NFloat", F: "NFraction", Decimal: "NDecimal"}
KIND = {"Quantity": "KQuantity", "Unit": "KUnit", "Measurement": "KMeasurement"}


# ------------------------------------------------------------------ canonical forms (Python side)
def _np():
    import numpy as np
    return np


def is_ufloat(m):
    return hasattr(m, "nominal_value") and hasattr(m, "std_dev")


def canon_mag(m):
    """type-tagged, exact, hashable description of a magnitude"""
    np = _np()
    if m is None:
        return ("none",)
    if isinstance(m, bool):
        return ("bool", m)
    if isinstance(m, int):
        return ("int", m)
    if isinstance(m, float):
        return ("float", m.hex())
    if isinstance(m, F):
        return ("Fraction", m.numerator, m.denominator)
    if isinstance(m, Decimal):
        return ("Decimal", str(m.as_tuple()))
    if is_ufloat(m):
        return ("ufloat", float(m.nominal_value).hex(), float(m.std_dev).hex())
    if isinstance(m, np.ndarray):
        if m.dtype == object:
            return ("ndarray", "O", m.shape, tuple(canon_mag(x) for x in m.ravel().tolist()))
        return ("ndarray", m.dtype.str, m.shape, m.tobytes().hex())
    if isinstance(m, np.generic):
        return ("npscalar", m.dtype.str, m.tobytes().hex())
    return ("other", type(m).__name__, repr(m))


def canon_exp(v):
    try:
        return (type(v).__name__, str(F(v)))
    except Exception:
        return (type(v).__name__, repr(v))


def canon_uc(uc):
    """UnitsContainer / ParserHelper: typed exponents, _one, _non_int_type (and scale)"""
    d = tuple(sorted((k, canon_exp(v)) for k, v in uc._d.items()))
    out = (d, canon_exp(uc._one), uc._non_int_type.__name__)
    if hasattr(uc, "scale"):
        out += (canon_mag(uc.scale),)
    return out


def kind_of(obj, reg=None):
    n = type(obj).__name__
    for k in ("Measurement", "Quantity", "Unit"):
        if k in n:
            return k
    return n


def canon_obj(o):
    k = kind_of(o)
    mag = None if k == "Unit" else canon_mag(o._magnitude)
    return (k, mag, canon_uc(o._units))


def jsonable(x):
    if isinstance(x, tuple):
        return [jsonable(y) for y in x]
    return x


def base_probe(obj):
    """conversion to base units, as (float or list of floats, unit items) or an error name"""
    try:
        q = obj if kind_of(obj) != "Unit" else 1 * obj
        b = q.to_base_units()
        m = b.magnitude
        if is_ufloat(m):
            m = [float(m.nominal_value), float(m.std_dev)]
        elif hasattr(m, "tolist"):
            m = [float(x) for x in _np().asarray(m, dtype=float).ravel().tolist()]
        else:
            m = [float(m)]
        return {"m": m, "u": sorted((k, float(v)) for k, v in b._units._d.items())}
    except Exception as e:
        return {"err": type(e).__name__}


def render(obj):
    """abbreviated renderings: they look up the DEFINITION of every unit the object mentions"""
    out = []
    for spec in ("~", "~P"):
        try:
            out.append(format(obj if kind_of(obj) != "Measurement" else obj.units, spec))
        except Exception as e:
            out.append("!" + type(e).__name__)
    return out


def registry_snapshot(reg):
    """what Model/Serial.v's small registry needs (all private tables read, nothing parsed)"""
    return {
        "units": [(k, d.name) for k, d in reg._units.items()],
        "prefixes": [(k, d.name) for k, d in reg._prefixes.items()],
        "suffixes": list(reg._suffixes),
        "suffix_values": list(reg._suffixes.values()),
        "nonmult": sorted({d.name for d in reg._units.values() if not d.is_multiplicative}),
        "nit": reg.non_int_type.__name__,
        "case_sensitive": reg.case_sensitive,
        "lazy": sorted(getattr(reg, "_lazy_units", ())),
        "tracks_lazy": hasattr(reg, "_lazy_units"),
    }


# ------------------------------------------------------------------ Coq terms
def coq_mag(m):
    """magnitude -> Coq `mag` term, or None when outside the modelled grid (nan, inf, object arrays)"""
    np = _np()
    if isinstance(m, bool):
        return None
    if isinstance(m, int):
        return f"(MInt ({m})%Z)"
    if isinstance(m, float):
        return f"(MFloat {coq_q(F(m))})" if math.isfinite(m) else None
    if isinstance(m, F):
        return f"(MFrac {coq_q(m)})"
    if isinstance(m, Decimal):
        return f"(MDec {coq_q(F(m))})" if m.is_finite() else None
    if is_ufloat(m):
        n, s = float(m.nominal_value), float(m.std_dev)
        if not (math.isfinite(n) and math.isfinite(s)):
            return None
        return f"(MUfloat {coq_q(F(n))} {coq_q(F(s))})"
    if isinstance(m, np.ndarray) and m.dtype.kind in "fiu" and m.size <= 24:
        flat = m.ravel().tolist()
        if not all(math.isfinite(x) for x in flat):
            return None
        shape = coq_list([f"{n}%N" for n in m.shape])
        return f"(MArr {coq_str(m.dtype.str)} {shape} {coq_list([coq_q(F(x)) for x in flat])})"
    return None


def coq_ucont(uc):
    one = coq_mag(uc._one)
    nit = NIT.get(uc._non_int_type)
    if one is None or nit is None:
        return None
    try:
        d = {k: F(v) for k, v in uc._d.items()}
    except Exception:
        return None
    return f"(UCont {coq_uc(d)} {one} {nit})"


def coq_items(items):
    return coq_list([f"({coq_str(k)}, {coq_q(F(v))})" for k, v in items])


def coq_pobj(kind, mag, uc, rid):
    c = coq_ucont(uc)
    if c is None:
        return None
    if kind == "Unit":
        m = "None"
    else:
        mm = coq_mag(mag)
        if mm is None:
            return None
        m = f"(Some {mm})"
    return f"(PObj {KIND[kind]} {m} {c} {rid}%N)"


def coq_obj(o, rid):
    k = kind_of(o)
    return coq_pobj(k, None if k == "Unit" else o._magnitude, o._units, rid)


def coq_sval(x):
    from pint.util import udict
    if isinstance(x, dict):
        try:
            return f"(SVDict {coq_uc({k: F(v) for k, v in x.items()})})"
        except Exception:
            return None
    if isinstance(x, type):
        return f"(SVType {NIT[x]})" if x in NIT else None
    m = coq_mag(x)
    return None if m is None else f"(SVMag {m})"


def coq_val(v):
    """exception argument -> Coq `val`, or None when the model has no such value"""
    if v is None:
        return "VNone"
    if isinstance(v, bool):
        return f"(VBool {coq_bool(v)})"
    if isinstance(v, str):
        return f"(VStr {coq_str(v)})" if "\x00" not in v else None
    if isinstance(v, int):
        return f"(VInt ({v})%Z)"
    if isinstance(v, type):
        return f"(VType {coq_str(v.__module__ + '.' + v.__qualname__)})"
    if isinstance(v, tuple) and all(isinstance(x, str) for x in v):
        return "(VStrs " + coq_list([coq_str(x) for x in v]) + ")"
    return None


# ------------------------------------------------------------------ bookkeeping
class Run:
    def __init__(self, ck):
        self.ck = ck
        self.rng = random.Random(ck.seed)
        self.thorough = ck.tier == "thorough"
        self.cases = []          # (coq term, description) for c18_ok
        self.fails = []          # (key, desc, replay)
        self.rid = {}            # id(registry) -> small int (0 = application registry)
        self.xsig = set()

    def case(self, term, desc, key):
        if term is None:
            return
        if term.startswith("KXop ") and not self.thorough:
            # the model's verdict depends only on (operator, the two classes, same registry or not): in the
            # quick tier one representative per distinct (signature, observed outcome) goes to Coq
            sig = ("KXop", term.split()[1], term.split()[2], desc.get("left", "")[:4], desc.get("right", "")[:4],
                   desc.get("op"), term.rsplit(" ", 1)[1], str(desc.get("observed", ""))[:14])
            if sig in self.xsig:
                self.ck.case(key=key, nontrivial=True)
                return
            self.xsig.add(sig)
        self.cases.append((term, desc))
        self.ck.case(key=key, nontrivial=True, sample=desc if len(self.ck.samples) < 6 else None)

    def oracle(self, cond, key, desc, replay):
        self.ck.evaluations += 1
        if not cond:
            self.fails.append((key, desc, replay))
        return cond

    def regid(self, reg):
        return self.rid.setdefault(id(reg), len(self.rid) + 1)


def describe(o):
    try:
        if kind_of(o) in ("Quantity", "Measurement", "Unit"):
            return {"kind": kind_of(o), "magnitude": repr(getattr(o, "_magnitude", None))[:120],
                    "units": {k: str(v) for k, v in o._units._d.items()},
                    "non_int_type": o._units._non_int_type.__name__}
    except Exception:
        pass
    return {"repr": repr(o)[:200]}


# ------------------------------------------------------------------ generators
def gen_magnitude(rng, kind=None):
    np = _np()
    from uncertainties import ufloat
    kind = kind or rng.choice(["int", "float", "Fraction", "Decimal", "ndarray", "ndarray", "ufloat"])
    if kind == "int":
        return rng.choice([0, 1, -1, 3, 7, -12, 10 ** 6, 2 ** 70])
    if kind == "float":
        return rng.choice([0.0, -0.0, 1.5, -2.25, 0.1, 1e-9, 6.02214076e23, 3.0, 1 / 3])
    if kind == "Fraction":
        return F(rng.randint(-50, 50), rng.randint(1, 17))
    if kind == "Decimal":
        return Decimal(rng.choice(["0", "1.25", "-3.10", "1E+3", "0.001", "12345.678900"]))
    if kind == "ufloat":
        return ufloat(rng.choice([0.0, 2.0, -3.5, 1e3]), rng.choice([0.0, 0.1, 0.25, 2.0]))
    shape = rng.choice([(3,), (2, 3), (1,), (0,), (), (2, 2, 2)])
    n = 1
    for s in shape:
        n *= s
    if rng.random() < 0.5:
        return np.array([rng.choice([0.5, -1.25, 3.0, 1e-3, 2.75]) for _ in range(n)], dtype=float).reshape(shape)
    return np.array([rng.randint(-9, 9) for _ in range(n)], dtype=rng.choice(["int64", "int32"])).reshape(shape)


class Pool:
    """names of one registry: canonical unit names, multiplicative ones, prefix names"""

    def __init__(self, reg):
        self.reg = reg
        lazy = set(getattr(reg, "_lazy_units", ()))      # prefixed names written while the registry was built:
        self.canon = sorted({d.name for d in reg._units.values()} - lazy)   # keys of _units, but not spellings
        self.mult = [n for n in self.canon if reg._units[n].is_multiplicative]
        self.prefixes = sorted({d.name for d in reg._prefixes.values() if d.name})
        self.nit = reg.non_int_type
        self.rejected = []               # generated names the registry refused (reported, never fatal)

    def exponent(self, rng):
        if rng.random() < 0.75:
            return rng.choice([1, 1, 1, 2, 3, -1, -1, -2])
        fr = rng.choice([F(1, 2), F(-1, 2), F(3, 2), F(-3, 2), F(1, 4)])
        if self.nit is float:
            return float(fr)
        if self.nit is Decimal:
            return Decimal(fr.numerator) / Decimal(fr.denominator)
        return fr

    def name(self, rng, prefixed=None):
        if prefixed is None:
            prefixed = rng.random() < 0.45
        if prefixed:
            return rng.choice(self.prefixes) + rng.choice(self.mult)
        return rng.choice(self.canon)

    def container(self, rng, n=None, prefixed=None):
        n = rng.choice([1, 1, 2, 2, 3, 4]) if n is None else n
        d, tries = {}, 0
        while len(d) < n and tries < 50:
            tries += 1
            nm = self.name(rng, prefixed)
            try:                          # registers lazily defined prefixed names in this registry
                self.reg.parse_units(nm)
            except Exception as e:
                self.rejected.append((nm, type(e).__name__))
                continue
            d[nm] = self.exponent(rng)
        return self.reg.UnitsContainer(d)

    def obj(self, rng, kind=None, magkind=None):
        kind = kind or rng.choice(["Quantity", "Quantity", "Quantity", "Unit", "Measurement"])
        uc = self.container(rng)
        if kind == "Unit":
            return self.reg.Unit(uc)
        if kind == "Measurement":
            return self.reg.Measurement(rng.choice([0.0, 2.0, -3.5, 1e3]), rng.choice([0.0, 0.1, 0.25]), self.reg.Unit(uc))
        return self.reg.Quantity(gen_magnitude(rng, magkind), uc)


# ------------------------------------------------------------------ part A: objects in one process
def check_roundtrip(R, how, x, y, same_registry, expect_reg, extra):
    """y is the image of x under `how`; canonical equality + class + registry attachment"""
    rp = dict(describe(x), how=how, **extra)
    k = kind_of(x)
    fields = []
    cx, cy = canon_obj(x), canon_obj(y) if kind_of(y) in KIND else None
    if cy is None or cy[0] != cx[0]:
        fields.append("class")
    else:
        if cx[1] != cy[1]:
            fields.append("magnitude")
        if cx[2][0] != cy[2][0]:
            fields.append("units")
        if cx[2][1:] != cy[2][1:]:
            fields.append("non_int_type")
    if same_registry:
        if type(y) is not type(x):
            fields.append("class")
    if getattr(y, "_REGISTRY", None) is not expect_reg:
        fields.append("registry")
    R.oracle(not fields, f"{how.split(':')[0]}-roundtrip:{k}:{','.join(sorted(set(fields)))}",
             f"{how} of a {k} does not return an equal object (differs in {sorted(set(fields))})",
             dict(rp, observed=describe(y)))
    return not fields


def part_objects(R, pools, app):
    np = _np()
    rng, ck = R.rng, R.ck
    n_rand = 2500 if R.thorough else 220
    objs = []
    for pool in pools:
        rid = R.regid(pool.reg)
        # every canonical unit once, bare or prefixed, as Unit / Quantity
        names = list(pool.canon) if R.thorough else rng.sample(pool.canon, 140)
        for nm in names:
            if nm in pool.mult and rng.random() < 0.5:
                nm = rng.choice(pool.prefixes) + nm
            try:
                pool.reg.parse_units(nm)
            except Exception as e:
                pool.rejected.append((nm, type(e).__name__))
                continue
            uc = pool.reg.UnitsContainer({nm: pool.exponent(rng)})
            objs.append((pool, pool.reg.Unit(uc) if rng.random() < 0.5 else pool.reg.Quantity(gen_magnitude(rng), uc)))
        for _ in range(n_rand):
            objs.append((pool, pool.obj(rng)))
        for mk in ["int", "float", "Fraction", "Decimal", "ndarray", "ufloat"]:
            for _ in range(6):
                objs.append((pool, pool.obj(rng, "Quantity", mk)))
    all_protocols_every = 1 if R.thorough else 4
    for i, (pool, x) in enumerate(objs):
        reg, rid, k = pool.reg, R.regid(pool.reg), kind_of(x)
        before = canon_obj(x)
        ck.count(f"object:{k}")
        if k != "Unit":
            ck.count(f"magnitude:{canon_mag(x._magnitude)[0]}")
        ck.count("has-prefixed-unit" if any(n not in pool.canon for n in x._units._d) else "plain-units")
        # --- pickle, in process (attaches to the application registry)
        protos = range(6) if i % all_protocols_every == 0 else [rng.randrange(6)]
        for p in protos:
            try:
                y = pickle.loads(pickle.dumps(x, p))
            except Exception as e:
                R.oracle(False, f"pickle-roundtrip:{k}:raises:{type(e).__name__}", f"pickling a {k} raises {e!r}",
                         dict(describe(x), protocol=p))
                continue
            check_roundtrip(R, f"pickle:protocol{p}", x, y, False, app, {"protocol": p})
            ck.count(f"pickle-protocol-{p}")
        # --- __reduce__ as data
        try:
            fn, args = x.__reduce__()
            kk = {"_unpickle_quantity": "Quantity", "_unpickle_unit": "Unit", "_unpickle_measurement": "Measurement"}.get(fn.__name__)
            xo, cc = coq_obj(x, rid), coq_ucont(args[-1])
            if kk and xo and cc:
                m = "None" if kk == "Unit" else coq_opt(coq_mag(args[1]))
                R.case(f"KReduce {xo} {KIND[kk]} {m} {cc}", {"op": "reduce", **describe(x)}, ("reduce", i))
        except Exception as e:
            R.oracle(False, f"pickle-roundtrip:{k}:reduce-raises", f"__reduce__ raises {e!r}", describe(x))
        # --- copy / deepcopy
        for how, fnc in (("copy", copy.copy), ("deepcopy", copy.deepcopy)):
            try:
                y = fnc(x)
            except Exception as e:
                R.oracle(False, f"{how}-roundtrip:{k}:raises:{type(e).__name__}", f"{how} of a {k} raises {e!r}", describe(x))
                continue
            ok = check_roundtrip(R, how, x, y, True, reg, {})
            indep = y is not x
            if how == "deepcopy":
                indep = indep and y._units is not x._units and y._units._d is not x._units._d
            if k != "Unit" and isinstance(x._magnitude, np.ndarray):
                indep = indep and not np.shares_memory(x._magnitude, y._magnitude)
                if x._magnitude.size and x._magnitude.dtype.kind in "fi":
                    y._magnitude[...] = 99          # writing into the copy must not reach the original
                    indep = indep and canon_obj(x) == before
            if k != "Unit" and is_ufloat(x._magnitude) and how == "deepcopy":
                indep = indep and y._magnitude is not x._magnitude
            R.oracle(indep, f"{how}-independent:{k}", f"{how} of a {k} shares mutable state with the original",
                     describe(x))
            if ok:
                xo, yo = coq_obj(x, rid), coq_pobj(k, None if k == "Unit" else x._magnitude, y._units, R.regid(y._REGISTRY))
                if xo and yo and not (k != "Unit" and isinstance(x._magnitude, np.ndarray)):
                    R.case(f"KCopy {xo} {yo}", {"op": how, **describe(x)}, (how, i))
            ck.count(how)
        R.oracle(canon_obj(x) == before, f"mutation:{k}", "an operand was changed by copy/pickle", describe(x))
        # --- tuple form
        if k != "Unit":
            try:
                t = x.to_tuple()
                y = type(x).from_tuple(t)
            except Exception as e:
                R.oracle(False, f"tuple-roundtrip:{k}:raises:{type(e).__name__}", f"from_tuple(to_tuple()) raises {e!r}", describe(x))
                continue
            check_roundtrip(R, "tuple", x, y, True, reg, {})
            R.oracle(dict(t[1]) == dict(x._units._d) and len(t[1]) == len(x._units._d) and canon_mag(t[0]) == before[1],
                     f"tuple-roundtrip:{k}:to_tuple", "to_tuple() is not (magnitude, items of the units)", describe(x))
            ck.count("tuple")
            xo = coq_obj(x, rid)
            if xo:
                try:
                    R.case(f"KToTuple {xo} {coq_opt(coq_mag(t[0]))} {coq_items(t[1])}", {"op": "to_tuple", **describe(x)}, ("to_tuple", i))
                    yo = coq_obj(y, R.regid(y._REGISTRY))
                    if yo and NIT.get(reg.non_int_type):
                        R.case(f"KFromTuple {KIND[k]} {rid}%N {NIT[reg.non_int_type]} {coq_opt(coq_mag(t[0]))} {coq_items(t[1])} {yo}",
                               {"op": "from_tuple", **describe(x)}, ("from_tuple", i))
                except Exception:
                    pass
    # from_tuple on hand-made tuples: duplicate keys (last wins), zero exponents, empty
    for pool in pools:
        reg, rid = pool.reg, R.regid(pool.reg)
        for _ in range(60 if R.thorough else 20):
            items = [(rng.choice(["meter", "second", "gram", "kiloinch"]), rng.choice([1, 2, -1, 0, 3])) for _ in range(rng.randint(0, 4))]
            mag = rng.choice([1, 2.5, F(1, 3)])
            try:
                y = reg.Quantity.from_tuple((mag, tuple(items)))
            except Exception:
                continue
            R.oracle(dict(y._units._d) == dict(items) and canon_mag(y._magnitude) == canon_mag(mag) and y._REGISTRY is reg,
                     "tuple-roundtrip:Quantity:from_tuple", "from_tuple(t) is not Quantity(t[0], dict(t[1]))", {"tuple": repr((mag, items))})
            yo = coq_obj(y, rid)
            if yo:
                R.case(f"KFromTuple KQuantity {rid}%N {NIT[reg.non_int_type]} {coq_opt(coq_mag(mag))} {coq_items(items)} {yo}",
                       {"op": "from_tuple", "tuple": repr((mag, items))}, ("from_tuple_raw", rid, repr(items), repr(mag)))
    return objs


# ------------------------------------------------------------------ part B: container classes
def part_containers(R):
    from pint.util import ParserHelper, UnitsContainer
    rng, ck = R.rng, R.ck
    names = ["meter", "second", "kiloinch", "[length]", "degC", "µs"]
    for it in range(1200 if R.thorough else 120):
        nit = rng.choice([float, F, Decimal])
        def num(fr):
            fr = F(fr)
            if fr.denominator == 1 and rng.random() < 0.8:
                return int(fr)
            if nit is float:
                return float(fr)
            if nit is Decimal:
                return Decimal(fr.numerator) / Decimal(fr.denominator)
            return fr
        d = {n: num(rng.choice([1, 2, -1, -3, F(1, 2), F(-3, 2), F(5, 4)])) for n in rng.sample(names, rng.randint(0, 4))}
        if rng.random() < 0.5:
            x = UnitsContainer(d, non_int_type=nit)
            cls, kname = UnitsContainer, "UnitsContainer"
        else:
            sc = rng.choice([1, 2, -3, 0.5, F(2, 3), 1.0])
            x = ParserHelper(sc, d, non_int_type=nit)
            cls, kname = ParserHelper, "ParserHelper"
        if rng.random() < 0.4:
            try:
                hash(x)
            except ValueError:
                pass
        before = canon_uc(x)
        rp = {"class": kname, "d": {k: repr(v) for k, v in d.items()}, "non_int_type": nit.__name__,
              "scale": repr(getattr(x, "scale", None))}
        images = [(f"pickle:protocol{p}", (lambda p=p: pickle.loads(pickle.dumps(x, p)))) for p in range(6)]
        images += [("copy", lambda: copy.copy(x)), ("deepcopy", lambda: copy.deepcopy(x)), ("copy-method", lambda: x.copy())]
        for how, fn in images:
            try:
                y = fn()
            except Exception as e:
                R.oracle(False, f"{how.split(':')[0]}-roundtrip:{kname}:raises:{type(e).__name__}", f"{how} of a {kname} raises {e!r}", dict(rp, how=how))
                continue
            cy = canon_uc(y) if isinstance(y, UnitsContainer) else None
            fields = []
            if type(y) is not cls:
                fields.append("class")
            elif cy != before:
                fields += [f for f, a, b in zip(("units", "one", "non_int_type", "scale"), before, cy) if a != b]
            else:
                try:
                    if not (y == x) or (getattr(x, "scale", 1) == 1 and hash(y) != hash(x)):
                        fields.append("eq-hash")
                except Exception as e:
                    fields.append("eq-raises")
            R.oracle(not fields, f"{how.split(':')[0]}-roundtrip:{kname}:{','.join(fields)}",
                     f"{how} of a {kname} does not return an equal object (differs in {fields})", dict(rp, how=how))
            if how != "copy":
                R.oracle(y is not x and y._d is not x._d, f"{how.split(':')[0]}-independent:{kname}", f"{how} shares the dict", dict(rp, how=how))
            ck.count(f"container:{how.split(':')[0]}")
        R.oracle(canon_uc(x) == before, f"mutation:{kname}", "container changed by copy/pickle", rp)
        # state tuples as data
        st = x.__getstate__()
        svs = [coq_sval(s) for s in st]
        if all(svs):
            c = coq_ucont(x)
            if cls is UnitsContainer:
                R.case(f"KUcGet {c} {coq_list(svs)}", {"op": "getstate", **rp}, ("ucget", it))
            else:
                sc = coq_mag(x.scale)
                if sc:
                    R.case(f"KPhGet (PHCont {c} {sc}) {coq_list(svs)}", {"op": "getstate", **rp}, ("phget", it))
            # __setstate__ on a blank instance, well-formed and malformed states
            for variant in ("ok", "short", "long"):
                s2 = list(st) if variant == "ok" else (list(st)[:-1] if variant == "short" else list(st) + [1])
                sv2 = [coq_sval(s) for s in s2]
                if not all(sv2):
                    continue
                new = object.__new__(cls)
                try:
                    new.__setstate__(tuple(s2))
                    ok = isinstance(new._d, dict) and isinstance(new._non_int_type, type) and not isinstance(new._one, (dict, type))
                    if cls is ParserHelper:
                        ok = ok and not isinstance(new.scale, (dict, type))
                    res = None
                    if ok:
                        cu = coq_ucont(new)
                        res = cu if cls is UnitsContainer else f"(PHCont {cu} {coq_mag(new.scale)})"
                except (ValueError, TypeError, AttributeError):
                    res = None
                ctor = "KUcSet" if cls is UnitsContainer else "KPhSet"
                R.case(f"{ctor} {coq_list(sv2)} {coq_opt(res)}", {"op": "setstate", "variant": variant, **rp}, (ctor, it, variant))


# ------------------------------------------------------------------ part C: exceptions
def canon_val(v):
    """canonical form of an exception field (pint objects by their data)"""
    if kind_of(v) in KIND and hasattr(v, "_units"):
        return ("obj",) + canon_obj(v)
    if hasattr(v, "_d") and hasattr(v, "_non_int_type"):
        return ("uc",) + canon_uc(v)
    if isinstance(v, tuple):
        return ("tuple",) + tuple(canon_val(x) for x in v)
    if isinstance(v, list):
        return ("list",) + tuple(canon_val(x) for x in v)
    if isinstance(v, type):
        return ("type", v.__module__, v.__qualname__)
    if isinstance(v, (int, float, F, Decimal)) and not isinstance(v, bool):
        return canon_mag(v)
    return (type(v).__name__, repr(v))


def srepr(v, n=80):
    try:
        return repr(v)[:n]
    except Exception as ex:              # e.g. F18: Fraction exponents cannot be formatted
        return f"<{type(v).__name__}: repr raises {type(ex).__name__}>"


def sstr(e):
    try:
        return str(e)
    except Exception as ex:
        return f"<str raises {type(ex).__name__}>"


def load_class(qual):
    import importlib
    mod, _, name = qual.rpartition(".")
    return getattr(importlib.import_module(mod), name)


def gen_exn_arg(rng, pools, pname, model_only):
    import pint
    from pint.facets.plain.definitions import PrefixDefinition, UnitDefinition
    simple = [lambda: rng.choice(["", "meter", "kilo inch", "a 'quoted' \"name\"", "µ°Ω", "line1\nline2", "x" * 40]),
              lambda: rng.choice([0, 1, -7, 10 ** 12]),
              lambda: None,
              lambda: rng.choice([UnitDefinition, PrefixDefinition, int, str, pint.UnitRegistry]),
              lambda: tuple(rng.choice(["meter", "foo", "bar_baz", "µs"]) for _ in range(rng.randint(0, 3)))]
    rich = [lambda: rng.choice(pools).obj(rng, "Unit"),
            lambda: rng.choice(pools).container(rng),
            lambda: rng.choice(pools).obj(rng, "Quantity", "float"),
            lambda: rng.choice([1.5, F(2, 3), Decimal("1.10")]),
            lambda: rng.choice(pools).reg.get_dimensionality("meter / second"),
            lambda: [rng.choice(["meter", "foo"]) for _ in range(rng.randint(0, 2))]]
    if rng.random() < 0.22:
        # falsy but not None: a __reduce__ / __init__ that tests truthiness instead of `is None` drops these
        from pint.util import UnitsContainer
        falsy = ["", 0, (), False] + ([] if model_only else [UnitsContainer(), 0.0, F(0), rng.choice(pools).reg.Unit(""), []])
        return rng.choice(falsy)
    if pname in ("msg", "extra_msg", "dim1", "dim2", "name", "location") and rng.random() < 0.7:
        return simple[0]()
    if pname == "unit_names":
        return rng.choice([simple[0], simple[4], simple[4]] + ([] if model_only else [rich[5]]))()
    if pname == "definition_type" and rng.random() < 0.7:
        return simple[3]()
    if model_only or rng.random() < 0.5:
        return rng.choice(simple)()
    return rng.choice(rich)()


def exn_fields(row, e):
    if row["varargs"]:
        return {"args": canon_val(e.args)}
    out = {}
    names = [f for f, _ in row["fields"]] + sorted(k for k in vars(e) if not k.startswith("_"))
    for f in dict.fromkeys(names):
        out[f] = canon_val(getattr(e, f)) if hasattr(e, f) else ("<missing>",)
    return out


def runtime_rows():
    """The exception classes of pint found by IMPORTING it (independent of the translator T5): every class
    defined in a pint module (testsuite excluded) that derives from an exception class of pint.errors, with
    the parameters of its __init__.  Used by the oracles; when T5 is available the two lists must agree."""
    import importlib
    import inspect
    import pkgutil
    import pint
    import pint.errors as pe
    roots = tuple(c for c in vars(pe).values() if isinstance(c, type) and issubclass(c, BaseException) and c.__module__ == "pint.errors")
    found = {}
    for m in pkgutil.walk_packages(pint.__path__, "pint."):
        if ".testsuite" in m.name:
            continue
        try:
            mod = importlib.import_module(m.name)
        except Exception:
            continue                      # optional dependencies (dask, matplotlib, ...)
        for c in vars(mod).values():
            if isinstance(c, type) and issubclass(c, roots) and c.__module__ == m.name:
                found[c.__module__ + "." + c.__qualname__] = c
    for c in roots:
        found[c.__module__ + "." + c.__qualname__] = c
    rows = []
    for q, c in sorted(found.items()):
        own_init = next((k for k in c.__mro__ if "__init__" in vars(k)), None)
        varargs = own_init is None or own_init.__module__ == "builtins"
        params = []
        if not varargs:
            for n, p in list(inspect.signature(c.__init__).parameters.items())[1:]:
                if p.kind not in (p.POSITIONAL_OR_KEYWORD,):
                    varargs = True
                    break
                params.append((n, None if p.default is p.empty else "default"))
        rows.append({"qual": q, "varargs": varargs, "params": [] if varargs else params,
                     "fields": [] if varargs else [(n, None) for n, _ in params]})
    return rows


def exn_compare(row, e, r):
    """names of what differs between an exception and its image"""
    bad = []
    if type(r) is not type(e):
        return ["type"]
    fe, fr = exn_fields(row, e), exn_fields(row, r)
    bad += [f for f in fe if fe[f] != fr.get(f)]
    if hasattr(e, "_statement") or hasattr(r, "_statement"):     # flexparser position / raw text
        if getattr(e, "_statement", None) != getattr(r, "_statement", None):
            se, sr = getattr(e, "_statement", None), getattr(r, "_statement", None)
            blank = lambda s: s is None or (not s.is_position_set and s.raw is None)
            if not (blank(se) and blank(sr)):
                bad.append("statement")
    se, sr = sstr(e), sstr(r)
    if type(e).__str__ is BaseException.__str__ and not row["varargs"] and canon_val(e.args) != canon_val(r.args):
        # no __str__ of its own: str() renders BaseException.args, i.e. how the constructor was
        # CALLED (keywords are not recorded there), not the fields; not part of the statement
        pass
    elif se != sr:
        bad.append("str")
    return bad


def part_exceptions(R, pools, rows, with_model=True):
    rng, ck = R.rng, R.ck
    n_each = 400 if R.thorough else 45
    for row in rows:
        qual = row["qual"]
        try:
            cls = load_class(qual)
        except Exception as e:
            R.oracle(False, f"exn-roundtrip:{qual}:import", f"class found by T5 cannot be imported: {e!r}", {"class": qual})
            continue
        params = row["params"]
        for it in range(n_each):
            model_only = rng.random() < 0.6
            if row["varargs"]:
                pos = [gen_exn_arg(rng, pools, "", model_only) for _ in range(rng.randint(0, 3))]
                kw = {}
            else:
                style = rng.choice(["positional", "positional", "keywords", "mixed", "required-only", "malformed"])
                vals = [(p, gen_exn_arg(rng, pools, p, model_only)) for p, _ in params]
                nreq = sum(1 for _, d in params if d is None)
                if style == "positional":
                    pos, kw = [v for _, v in vals], {}
                elif style == "keywords":
                    pos, kw = [], dict(vals)
                elif style == "mixed":
                    cut = rng.randint(0, len(vals))
                    pos, kw = [v for _, v in vals[:cut]], dict(vals[cut:])
                elif style == "required-only":
                    pos, kw = [v for _, v in vals[:nreq]], {}
                else:
                    pos, kw = [v for _, v in vals], {}
                    what = rng.choice(["extra", "missing", "unknown-kw", "dup"])
                    if what == "extra":
                        pos.append("extra")
                    elif what == "missing" and pos:
                        pos = pos[:max(0, nreq - 1)]
                    elif what == "unknown-kw":
                        kw = {"no_such_parameter": 1}
                    elif pos:
                        kw = {params[0][0]: pos[0]}
            rp = {"class": qual, "args": [srepr(v) for v in pos], "kwargs": {k: srepr(v) for k, v in kw.items()}}
            cpos, ckw = [coq_val(v) for v in pos], [(k, coq_val(v)) for k, v in kw.items()]
            in_model = with_model and all(cpos) and all(v for _, v in ckw)
            cargs = f"{coq_str(qual)} {coq_list(cpos)} {coq_list([f'({coq_str(k)}, {v})' for k, v in ckw])}" if in_model else None
            try:
                e = cls(*pos, **kw)
            except TypeError:
                if in_model:
                    R.case(f"KExnNew {cargs} None", {"op": "exn-new", **rp}, ("exn-new", qual, it))
                ck.count("exception:constructor-refuses")
                continue
            ck.count(f"exception:{qual.rsplit('.', 1)[1]}")
            fields_model = None
            if in_model and not row["varargs"]:
                fv = [(f, coq_val(getattr(e, f, None))) for f, _ in row["fields"]]
                if all(v for _, v in fv):
                    fields_model = coq_list([f"({coq_str(f)}, {v})" for f, v in fv])
                    R.case(f"KExnNew {cargs} (Some {fields_model})", {"op": "exn-new", **rp}, ("exn-new", qual, it))
            elif in_model:
                R.case(f"KExnNew {cargs} (Some [])", {"op": "exn-new", **rp}, ("exn-new", qual, it))
            # reduce tuple as data
            try:
                red = e.__reduce__()
                rargs = [coq_val(v) for v in red[1]]
                if in_model and all(rargs) and red[0] is cls:
                    R.case(f"KExnReduce {cargs} {coq_list(rargs)}", {"op": "exn-reduce", **rp}, ("exn-reduce", qual, it))
            except Exception as ex:
                R.oracle(False, f"exn-roundtrip:{qual}:reduce-raises", f"__reduce__ raises {ex!r}", rp)
            images = [(f"pickle:protocol{p}", (lambda p=p: pickle.loads(pickle.dumps(e, p)))) for p in range(6)]
            images += [("copy", lambda: copy.copy(e)), ("deepcopy", lambda: copy.deepcopy(e))]
            first = True
            for how, fn in images:
                try:
                    r = fn()
                except Exception as ex:
                    R.oracle(False, f"exn-roundtrip:{qual}:raises:{type(ex).__name__}", f"{how} of {qual} raises {ex!r}", dict(rp, how=how))
                    continue
                bad = exn_compare(row, e, r)
                fe, fr = (exn_fields(row, e), exn_fields(row, r)) if bad and bad != ["type"] else ({}, {})
                R.oracle(not bad, f"exn-roundtrip:{qual}:{','.join(bad)}",
                         f"{how} of {qual.rsplit('.', 1)[1]}({', '.join(rp['args'] + [k + '=' + v for k, v in rp['kwargs'].items()])[:160]}) loses {bad}: "
                         + "; ".join(f"{k}: {fe.get(k)} -> {fr.get(k)}" for k in bad if k in fe)[:240]
                         + (f"; str {sstr(e)[:100]!r} -> {sstr(r)[:100]!r}" if "str" in bad else ""),
                         dict(rp, how=how, lost=bad, fields_before={k: str(v) for k, v in fe.items()},
                              fields_after={k: str(v) for k, v in fr.items()}))
                ck.count(f"exception-image:{how.split(':')[0]}")
                if first and in_model:
                    first = False
                    if row["varargs"]:
                        R.case(f"KExnTrip {cargs} (Some [])", {"op": "exn-trip", **rp}, ("exn-trip", qual, it))
                    else:
                        fv = [(f, coq_val(getattr(r, f, None))) for f, _ in row["fields"]]
                        if all(v for _, v in fv):
                            fm = coq_list([f"({coq_str(f)}, {v})" for f, v in fv])
                            R.case(f"KExnTrip {cargs} (Some {fm})", {"op": "exn-trip", **rp}, ("exn-trip", qual, it))
    # exceptions as pint really raises them
    import pint
    reg = pools[0].reg
    raisers = [lambda: reg.Quantity(1, "meter").to("second"), lambda: reg.parse_units("no_such_unit_xyz"),
               lambda: reg.Quantity(1, "degC") * reg.Quantity(2, "degC"), lambda: reg.Quantity(1, "dB") * reg.Quantity(2, "dB") + 1,
               lambda: copy.deepcopy(reg).define("meter = 3 * second") if reg._on_redefinition == "raise" else pint.UnitRegistry(on_redefinition="raise").define("meter = 3 second"),
               lambda: reg.parse_expression("1 +* 2 meter ("), lambda: reg.define("bad name = 3"),
               lambda: copy.deepcopy(reg).load_definitions(["km/ = 3"]), lambda: copy.deepcopy(reg).load_definitions(["@alias nonexistent_x = y", "z = "]),
               lambda: copy.deepcopy(reg).load_definitions(["x = 1 *"]),
               lambda: reg.Quantity(10, "degC") / 2, lambda: 2 / reg.Quantity(10, "degC"), lambda: reg.Quantity(10, "degC") * 2,
               lambda: reg.Quantity(10, "degC") / reg.Quantity(2, ""), lambda: reg.Quantity(10, "degC") * reg.Quantity(2, ""),
               lambda: reg.Quantity(10, "degC") ** 2, lambda: reg.Quantity(10, "degC") / reg.Quantity(2, "degF"),
               lambda: reg.Quantity(10, "degC") + reg.Quantity(2, "degF"), lambda: reg.Quantity([1, 2], "degC") * reg.Quantity(2, "m"),
               lambda: reg.Quantity(10, "dBm") * 2, lambda: reg.Quantity(10, "dBm") / reg.Quantity(2, ""), lambda: 2 / reg.Quantity(10, "dB"),
               lambda: reg.Quantity(10, "dBm") + reg.Quantity(1, "dB"), lambda: reg.Quantity(10, "dBm") * reg.Quantity(2, "dBm"),
               lambda: reg.Quantity(10, "degC").to("dBm"), lambda: reg.Quantity(1, "kilodegC"), lambda: reg.Quantity(2, "m") + 1,
               lambda: reg.Quantity(2, "m") < reg.Quantity(2, "s"), lambda: reg.parse_units("foo_x * bar_y"), lambda: reg.get_name("zzz"),
               lambda: bool(reg.Quantity(0, "degC")), lambda: reg.Quantity(1, "degC").to_reduced_units() * reg.Quantity(1, "degC")]
    by_qual = {r["qual"]: r for r in rows}
    for i, f in enumerate(raisers):
        try:
            f()
            continue
        except Exception as e:
            q = type(e).__module__ + "." + type(e).__qualname__
            row = by_qual.get(q)
            if row is None:
                continue
            import inspect
            try:
                src = inspect.getsource(f).strip().rstrip(",")[:160]
            except Exception:
                src = f"raiser {i}"
            images = [(f"pickle:protocol{p}", (lambda p=p: pickle.loads(pickle.dumps(e, p)))) for p in range(6)]
            images += [("copy", lambda: copy.copy(e)), ("deepcopy", lambda: copy.deepcopy(e))]
            for how, fn in images:
                try:
                    r = fn()
                except Exception as ex:
                    R.oracle(False, f"exn-roundtrip:{q}:raises:{type(ex).__name__}", f"{how} of a raised {q} raises {ex!r}", {"raised_by": src})
                    continue
                bad = exn_compare(row, e, r)
                fe, fr = exn_fields(row, e), exn_fields(row, r)
                R.oracle(not bad, f"exn-roundtrip:{q}:{','.join(bad)}",
                         f"{how} of the {q.rsplit('.', 1)[1]} raised by `{src}` loses {bad}: "
                         + "; ".join(f"{k}: {fe.get(k)} -> {fr.get(k)}" for k in bad if k in fe)[:300],
                         {"raised_by": src, "class": q, "how": how, "lost": bad,
                          "fields_before": {k: str(v) for k, v in fe.items()}, "fields_after": {k: str(v) for k, v in fr.items()}})
                ck.count("exception:as-raised")
    # defect switch for F17: does the implementation lose `location`?
    try:
        D = load_class("pint.delegates.txt_defparser.common.DefinitionSyntaxError")
        w = pickle.loads(pickle.dumps(D("bad definition", "units.txt")))
        loses = getattr(w, "location", None) != "units.txt"
    except Exception:
        loses = True
    if with_model:
        R.case(f"KF17 {coq_bool(loses)}", {"op": "F17 witness replayed", "loses_location": loses}, ("f17",))
    ck.extra["switch_f17_loses_location"] = loses


# ------------------------------------------------------------------ part D: fresh subprocesses
def run_children(jobs, tmp):
    """jobs: list of job dicts -> list of result dicts (None on failure), run in parallel"""
    import concurrent.futures as cf
    env = dict(os.environ, PYTHONPATH=f"{REPO}:{VERIF}", PYTHONHASHSEED="0", PYTHONDONTWRITEBYTECODE="1")

    def one(i):
        jp, op = os.path.join(tmp, f"job{i}.pickle"), os.path.join(tmp, f"out{i}.json")
        with open(jp, "wb") as f:
            pickle.dump(jobs[i], f)
        p = subprocess.run([sys.executable, "-m", "harness.c18_child", jp, op], cwd=str(VERIF), env=env,
                           stdout=subprocess.PIPE, stderr=subprocess.STDOUT, text=True, timeout=600)
        if p.returncode != 0 or not os.path.exists(op):
            return {"crash": p.stdout[-1500:]}
        with open(op) as f:
            return json.load(f)
    with cf.ThreadPoolExecutor(max_workers=min(12, os.cpu_count() or 4)) as ex:
        return list(ex.map(one, range(len(jobs))))


def close(a, b, tol=1e-9):
    if len(a) != len(b):
        return False
    for x, y in zip(a, b):
        if math.isnan(x) and math.isnan(y):
            continue
        if x == y:
            continue
        if abs(x - y) > tol * max(abs(x), abs(y)):
            return False
    return True


def part_subprocess(R, pools, objs):
    import pint
    from pint.util import UnitsContainer
    rng, ck = R.rng, R.ck
    fpool = pools[0]
    n_children = 40 if R.thorough else 6
    per_child = 110 if R.thorough else 36
    ref = pint.UnitRegistry(cache_folder=None)

    fresh_cache = {}

    def resolves_fresh(name, special):
        key = (name, special)
        if key not in fresh_cache:
            reg = pint.UnitRegistry(cache_folder=None) if special else ref
            try:
                reg.parse_units(name)
                fresh_cache[key] = True
            except Exception:
                fresh_cache[key] = False
        return fresh_cache[key]
    # parent-only definitions
    priv = pint.UnitRegistry(cache_folder=None)
    priv.define("smoot = 1.7018 * meter = smt")
    priv.define("zork- = 12")
    specials = []
    for d in [{"smoot": 1}, {"kilosmoot": 2}, {"meter": 1, "smoot": -1}, {"zorkmeter": 1}]:
        for k in d:
            priv.parse_units(k)
        specials.append(priv.Quantity(rng.choice([1, 2.5]), priv.UnitsContainer(d)))
    for d in [{"kin": 1}, {"kilometers": 1}, {"µs": 2}, {"millikiloinch": 1}, {"kilodegC": 1}, {"kilodegree_Celsius": 1},
              {"dimensionless": 1}, {"meters": 1, "seconds": -1}, {"no_such_unit": 1}, {"inchs": 1}, {"kilo": 1}, {"ks": 1},
              {"kiloinch": 1, "millikiloinch": 1}, {"millikiloinch": 1, "kiloinch": 1}, {"megametre": 1}]:
        specials.append(fpool.reg.Quantity(1, UnitsContainer(d)) if rng.random() < 0.7 else fpool.reg.Unit(UnitsContainer(d)))
    first = fpool.reg.Quantity(3, "kiloinch/microfortnight")
    cand = [x for _, x in objs if coq_obj(x, 0)]
    jobs, metas = [], []
    for c in range(n_children):
        items = [first] if c == 0 else []
        items += rng.sample(cand, min(per_child, len(cand)))
        for s in rng.sample(specials, rng.randint(3, len(specials)) if c else len(specials)):
            items.insert(rng.randrange(1 if c == 0 else 0, len(items) + 1), s)
        blobs, meta = [], []
        # odd children: the application registry has a HISTORY -- a unit-redefining context is entered and
        # left between unpicklings, prefixed names are parsed inside it, and what was unpickled inside is
        # unpickled again outside
        hist = (c % 2 == 1)
        inside, met_inside = False, []
        for j, x in enumerate(items):
            if hist and rng.random() < 0.22:
                ev = ("leave",) if inside else ("enter",)
                inside = not inside
                blobs.append((len(blobs), ev))
                meta.append((None, ev))
                if not inside and met_inside:          # just left: replay what was first met inside
                    for y in met_inside[-4:]:
                        p = rng.randrange(6)
                        blobs.append((len(blobs), pickle.dumps(y, p)))
                        meta.append((y, p))
                    met_inside = []
            if hist and inside and rng.random() < 0.3:
                nm = fpool.name(rng, True)
                blobs.append((len(blobs), ("parse", nm)))
                meta.append((None, ("parse", nm)))
                y = fpool.reg.Quantity(rng.choice([3, 2.5]), fpool.reg.UnitsContainer({nm: 1}))
                fpool.reg.parse_units(nm)
                met_inside.append(y)
            protos = range(6) if (j % 9 == 0) else [rng.randrange(6)]
            for p in protos:
                blobs.append((len(blobs), pickle.dumps(x, p)))
                meta.append((x, p))
            if inside:
                met_inside.append(x)
        if inside:
            blobs.append((len(blobs), ("leave",)))
            meta.append((None, ("leave",)))
            for y in met_inside[-6:]:
                p = rng.randrange(6)
                blobs.append((len(blobs), pickle.dumps(y, p)))
                meta.append((y, p))
        jobs.append({"snapshot": True, "convert": True, "blobs": blobs, "contexts": hist})
        metas.append(meta)
    tmp = tempfile.mkdtemp(prefix="c18_")
    try:
        results = run_children(jobs, tmp)
    finally:
        import shutil
        shutil.rmtree(tmp, ignore_errors=True)
    snap0, useq_cases = None, []
    explicit = registry_snapshot(pint.UnitRegistry(on_redefinition="raise", cache_folder=None))
    for c, (res, meta) in enumerate(zip(results, metas)):
        if "crash" in res:
            R.oracle(False, "subprocess:crash", "child process failed: " + res["crash"][-300:], {"child": c})
            ck.broken.append(f"child process {c} failed")
            continue
        if not res["pint_file"].startswith(str(REPO)):
            ck.broken.append(f"child imported pint from {res['pint_file']}, not {REPO}")
            continue
        snap = res["snapshot"]
        # lazy default registry == explicitly built one, table by table
        for tab in ("units", "prefixes", "suffixes", "nonmult", "nit", "case_sensitive", "lazy", "tracks_lazy"):
            R.oracle(jsonable(snap[tab]) == jsonable(explicit[tab]) if tab not in ("units", "prefixes") else
                     [tuple(x) for x in snap[tab]] == [tuple(x) for x in explicit[tab]],
                     f"lazy-equals-explicit:table:{tab}", f"the lazily built default registry differs from an explicit one in {tab}", {"child": c})
        if snap0 is None:
            snap0 = snap
        steps = []
        depth = 0
        for (x, p), st in zip(meta, res["steps"]):
            if x is None:                      # history event
                ck.count(f"subprocess:event:{p[0]}")
                if st["out"] == "other":
                    R.oracle(False, f"unpickle-history:{p[0]}:raises", f"{p} on the application registry raises {st.get('err')}", {"child": c, "event": p})
                if p[0] == "enter":
                    depth += 1
                    steps.append("UEvEnter")
                elif p[0] == "leave":
                    depth -= 1
                    steps.append(f"(UEvLeave {coq_list([coq_str(n) for n in st['gone']])})")
                else:
                    out = {"ok": "OutOk", "offset": "OutOffset", "other": "OutOther"}.get(st["out"])
                    if st["out"] == "undefined":
                        out = f"(OutUndefined {coq_str(st['names'][0])})" if len(st["names"]) == 1 else "OutOther"
                    steps.append(f"(UEvParse {coq_str(p[1])} {out} {coq_list([coq_str(n) for n in st['new']])})")
                continue
            k = kind_of(x)
            names = list(x._units._d)
            special = any(x is s for s in specials)
            all_fresh = all(resolves_fresh(n, special) for n in names)
            rp = dict(describe(x), protocol=p, child=c, step=st["id"], observed=st.get("out"), err=st.get("err"), names=st.get("names"))
            ck.count(f"subprocess:{st['out']}")
            if st["out"] == "ok":
                cx = jsonable(canon_obj(x))
                bad = []
                if st["kind"] != k:
                    bad.append("class")
                if st["canon"][1] != cx[1]:
                    bad.append("magnitude")
                if st["canon"][2][0] != cx[2][0]:
                    bad.append("units")
                if st["canon"][2][1:] != cx[2][1:]:
                    bad.append("non_int_type")
                if not st["attached"]:
                    bad.append("registry")
                R.oracle(not bad, f"pickle-roundtrip:{k}:{','.join(bad)}",
                         f"unpickling in a fresh process returns a different object (differs in {bad})", rp)
                # "with any prefixed units they mention registered there first": names as pint writes them
                # (prefix name + canonical unit name) are keys of the application registry afterwards
                if not special:
                    R.oracle(not st["missing"], f"pickle-roundtrip:{k}:not-registered",
                             f"after unpickling in a fresh process the application registry does not define {st['missing']}"
                             + (" (registry history: a unit-redefining context was entered and left before)" if jobs[c].get("contexts") else ""),
                             dict(rp, history=[m[1] if m[0] is None else ("unpickle", sorted(m[0]._units._d)) for m in meta[:st["id"] + 1]][-12:]))
                    if x._REGISTRY is fpool.reg:
                        mine = render(x)
                        R.oracle(all(a == b or a.startswith("!") for a, b in zip(mine, st["render"])), f"pickle-roundtrip:{k}:rendering",
                                 f"the unpickled object renders as {st['render']}, the original as {mine}",
                                 dict(rp, history=[m[1] if m[0] is None else ("unpickle", sorted(m[0]._units._d)) for m in meta[:st["id"] + 1]][-12:]))
                # every unit it mentions is now usable there: conversion agrees with the parent's
                if x._REGISTRY is fpool.reg and not special and depth == 0:   # (inside c18redef calorie means something else)
                    pb = base_probe(x)
                    cb = st["base"]
                    same = ("err" in pb and "err" in cb) or ("m" in pb and "m" in cb and close(pb["m"], cb["m"])
                                                             and [u for u, _ in pb["u"]] == [u for u, _ in cb["u"]])
                    R.oracle(same, f"pickle-roundtrip:{k}:conversion", "the unpickled object converts differently in the fresh process",
                             dict(rp, parent=pb, fresh=cb))
            elif st["out"] == "undefined":
                legit = all(n in names for n in st["names"]) and not all_fresh
                R.oracle(legit, f"unpickle-undefined:{k}", "UndefinedUnitError although every unit name resolves in a fresh default registry "
                         "(or the error names a unit the object does not have)", rp)
            elif st["out"] == "offset":
                R.oracle(not all_fresh, f"unpickle-offset:{k}", "OffsetUnitCalculusError although every name resolves", rp)
            else:
                R.oracle(False, f"pickle-roundtrip:{k}:raises", f"unpickling in a fresh process raises {st.get('err')}", rp)
            if all_fresh:
                R.oracle(st["out"] == "ok", f"pickle-roundtrip:{k}:refused", "every unit name resolves in a fresh default registry, "
                         f"yet unpickling in a fresh process gives {st['out']}", rp)
            # model step
            xo = coq_obj(x, R.regid(x._REGISTRY))
            out = {"ok": "OutOk", "offset": "OutOffset", "other": "OutOther"}.get(st["out"])
            if st["out"] == "undefined":
                out = f"(OutUndefined {coq_str(st['names'][0])})" if len(st["names"]) == 1 else "OutOther"
            res_obj = coq_obj(x, 0) if st["out"] == "ok" else None
            steps.append(f"(UEvObj (UStep {xo} {coq_list([coq_str(n) for n in names])} {out} "
                         f"{coq_list([coq_str(n) for n in st['new']])} {coq_opt(res_obj)}))")
            ck.case(key=("unpickle", c, st["id"]), nontrivial=True)
        R.oracle(res["steps"] and res["steps"][0]["out"] == "ok" if c == 0 else True, "pickle-roundtrip:Quantity:fresh-kiloinch",
                 "3 kiloinch/microfortnight does not unpickle in a fresh process", {"child": c})
        useq_cases.append((coq_list(steps), {"child": c, "steps": len(steps)}, snap))
    return snap0, useq_cases


def coq_app0(snap):
    pairs = lambda l: coq_list([f"({coq_str(a)}, {coq_str(b)})" for a, b in l])
    strs = lambda l: coq_list([coq_str(a) for a in l])
    return (f"Definition app0 : sreg := mk_sreg 0 {NIT[{'float': float, 'Fraction': F, 'Decimal': Decimal}[snap['nit']]]} "
            f"{pairs(snap['units'])} {pairs(snap['prefixes'])} {strs(snap['suffixes'])} {strs(snap['nonmult'])} "
            f"{strs(snap.get('lazy', []))} {coq_bool(snap.get('tracks_lazy', False))}.\n")


# ------------------------------------------------------------------ part D2: another interpreter, another str-hash seed
def build_spec(reg, spec):
    """(kind, magnitude, {name: exponent}, scale) -> object attached to `reg` (containers: no registry)"""
    from pint.util import ParserHelper, UnitsContainer
    kind, mag, d, scale = spec
    for n in d:
        reg.parse_units(n)
    if kind == "UnitsContainer":
        return UnitsContainer(d)
    if kind == "ParserHelper":
        return ParserHelper(scale, d)
    if kind == "Unit":
        return reg.Unit(UnitsContainer(d))
    if kind == "Measurement":
        return reg.Measurement(float(mag), 0.25, reg.Unit(UnitsContainer(d)))
    if kind == "exception":
        import pint
        return pint.DimensionalityError(UnitsContainer(d), reg.Unit(UnitsContainer(d)), "a", "b")
    return reg.Quantity(mag, UnitsContainer(d))


def units_of(o):
    return o._units if hasattr(o, "_units") else o


def part_cross_process_hash(R, pools):
    """objects used the ordinary way (their container hashed) in a process with another PYTHONHASHSEED,
    pickled there, unpickled here: must equal / hash like / be found in dicts keyed by the local twin"""
    import base64
    import pint
    rng, ck = R.rng, R.ck
    pool = pools[0]
    specs = []
    for i in range(60 if R.thorough else 24):
        kind = ["Quantity", "Unit", "UnitsContainer", "ParserHelper", "Measurement", "exception"][i % 6]
        d = {pool.name(rng): rng.choice([1, 2, -1, -2, 3]) for _ in range(rng.randint(1, 3))}
        specs.append((kind, rng.choice([1, 3, 2.5]), d, 1))
    tmp = tempfile.mkdtemp(prefix="c18h_")
    try:
        jp, op = os.path.join(tmp, "job.pickle"), os.path.join(tmp, "out.json")
        with open(jp, "wb") as f:
            pickle.dump({"mode": "produce", "specs": specs}, f)
        env = dict(os.environ, PYTHONPATH=f"{REPO}:{VERIF}", PYTHONHASHSEED="4242", PYTHONDONTWRITEBYTECODE="1")
        p = subprocess.run([sys.executable, "-m", "harness.c18_child", jp, op], cwd=str(VERIF), env=env,
                           stdout=subprocess.PIPE, stderr=subprocess.STDOUT, text=True, timeout=600)
        if p.returncode != 0 or not os.path.exists(op):
            ck.broken.append("producer process failed: " + p.stdout[-400:])
            return
        with open(op) as f:
            out = json.load(f)
    finally:
        import shutil
        shutil.rmtree(tmp, ignore_errors=True)
    app = pint.application_registry.get()
    for spec, blobs in zip(specs, out["blobs"]):
        kind = spec[0]
        exp = build_spec(app, spec)
        for proto, b64 in enumerate(blobs):
            rp = {"kind": kind, "units": {k: str(v) for k, v in spec[2].items()}, "magnitude": repr(spec[1]), "protocol": proto,
                  "how": "container hashed, then pickled, in a process with PYTHONHASHSEED=4242; unpickled with PYTHONHASHSEED="
                         + os.environ.get("PYTHONHASHSEED", "random")}
            try:
                got = pickle.loads(base64.b64decode(b64))
            except Exception as e:
                R.oracle(False, f"pickle-roundtrip:{kind}:cross-process:raises", f"unpickling raises {e!r}", rp)
                continue
            bad = []
            pairs = [(units_of(got), units_of(exp))] if kind != "exception" else \
                [(got.units1, exp.units1), (units_of(got.units2), units_of(exp.units2))]
            for g, e in pairs:
                try:
                    if not (g == e) or not (e == g):
                        bad.append("eq")
                    if (getattr(g, "scale", 1) == 1) and hash(g) != hash(e):
                        bad.append("hash")
                    if (getattr(g, "scale", 1) == 1) and {e: 1}.get(g) != 1:
                        bad.append("dict-lookup")
                except Exception as ex:
                    bad.append("raises:" + type(ex).__name__)
            if kind in ("Quantity", "Unit"):
                try:
                    if not (got == exp):
                        bad.append("object-eq")
                except Exception as ex:
                    bad.append("raises:" + type(ex).__name__)
            bad = sorted(set(bad))
            R.oracle(not bad, f"pickle-roundtrip:{kind}:cross-process:{','.join(bad)}",
                     f"a {kind} whose units were hashed before pickling in another interpreter (other str-hash seed) is not equal to the "
                     f"same object built here: fails {bad}", rp)
            ck.count("cross-process-hash")
        ck.case(key=("xproc", kind, str(spec[2])), nontrivial=True)


# ------------------------------------------------------------------ part E: registry pairs
PROBE_NAMES = ["meter", "inch", "kiloinch", "microfortnight", "smoot", "kilosmoot", "zorkmeter", "mymeter", "nb0", "degC",
               "foo", "bar", "kilofoo", "furlong", "cm", "µs", "dimensionless", "no_such_unit", "pfxmeter", "spam"]
PROBE_CI = ["pa", "Pa", "PA", "hz", "HZ", "hertz", "HERTZ", "newton", "NEWTON", "kpa", "mhz", "bq", "degc", "meter", "METER",
            "foo", "FOO", "inch", "INCH", "Inch", "smoot", "SMOOT", "mile", "furlong", "FURLONG"]
PROBE_PAIRS = [("inch", "cm"), ("mile", "meter"), ("foo", "meter"), ("kilofoo", "inch"), ("degC", "kelvin"), ("nb0", "nb0"),
               ("eV", "joule"), ("hour", "second"), ("mymeter", "inch"), ("smoot", "meter"), ("nm", "terahertz"),
               ("gallon", "liter"), ("bar", "pascal"), ("spam", "meter")]


def probe(reg):
    """observable answers of a registry (conversions, membership, parsing, settings)"""
    out = {}
    reg._units                      # an ordinary first access (first-touch paths are tested separately)
    for n in PROBE_NAMES:
        try:
            out["in:" + n] = n in reg
        except Exception as e:
            out["in:" + n] = type(e).__name__
        try:
            out["parse:" + n] = sorted((k, str(F(v))) for k, v in reg.parse_units(n)._units._d.items())
        except Exception as e:
            out["parse:" + n] = type(e).__name__
        try:
            out["dim:" + n] = sorted((k, str(F(v))) for k, v in reg.get_dimensionality(n)._d.items())
        except Exception as e:
            out["dim:" + n] = type(e).__name__
    for n in PROBE_CI:                # case-insensitive lookups read the _units_casei index
        try:
            out["parse-ci:" + n] = sorted((k, str(F(v))) for k, v in reg.parse_units(n, case_sensitive=False)._units._d.items())
        except Exception as e:
            out["parse-ci:" + n] = type(e).__name__
    for a, b in PROBE_PAIRS:
        try:
            m = reg.Quantity(F(3) if reg.non_int_type is F else 3.0, a).to(b).magnitude
            out[f"conv:{a}->{b}"] = str(m) if isinstance(m, F) else float(m).hex()
        except Exception as e:
            out[f"conv:{a}->{b}"] = type(e).__name__
    try:
        out["compat:meter"] = sorted(str(u) for u in reg.get_compatible_units("meter"))[:400]
    except Exception as e:
        out["compat:meter"] = type(e).__name__
    out["active_ctx"] = sorted(str(getattr(c, "name", c)) for c in reg._active_ctx.contexts) if hasattr(reg._active_ctx, "contexts") else repr(reg._active_ctx)
    out["contexts"] = sorted(k for k in reg._contexts)
    out["default_system"] = str(reg.default_system)
    out["default_format"] = str(reg.formatter.default_format)
    out["str"] = str(reg.Quantity(2, "inch/s"))
    out["fmt"] = f"{reg.Quantity(2, 'inch/s'):~P}"
    out["on_redefinition"] = reg._on_redefinition
    out["base:inch"] = str(reg.Quantity(1, "inch").to_base_units().units)
    return out


def registry_ops(rng, n):
    """a random sequence of definitions / setting changes, as (label, callable(reg))"""
    import pint
    ops = []
    pool = [
        ("define foo", lambda r: r.define("foo = 3 * meter = f_o")),
        ("define bar (redefinition of an existing unit)", lambda r: r.define("bar = 2 * pascal")),
        ("define spam from foo", lambda r: r.define("spam = 7 * inch")),
        ("define smoot", lambda r: r.define("smoot = 1.7018 * meter")),
        ("define new base unit", lambda r: r.define("nb0 = [nd0]")),
        ("define prefix", lambda r: r.define("pfx- = 30")),
        ("define prefix zork", lambda r: r.define("zork- = 12")),
        ("alias", lambda r: r.define("@alias meter = mymeter")),
        ("redefine inch", lambda r: r.define("inch = 3 * cm")),
        ("redefine mile", lambda r: r.define("mile = 2000 * meter")),
        ("redefine degC", lambda r: r.define("degC = kelvin; offset: 100")),
        ("parse prefixed names", lambda r: [r.parse_units(n) for n in ("kiloinch", "microfortnight", "millifurlong")]),
        ("enable context", lambda r: r.enable_contexts("spectroscopy")),
        ("add context", lambda r: r.add_context(_mk_ctx(pint))),
        ("enable new context", lambda r: (r.add_context(_mk_ctx(pint)) if "c18ctx" not in r._contexts else None, r.enable_contexts("c18ctx"))),
        ("default system", lambda r: setattr(r, "default_system", "cgs")),
        ("default format", lambda r: setattr(r.formatter, "default_format", "~P")),
        ("convert (fills caches)", lambda r: r.Quantity(1, "mile").to("inch")),
        ("load definitions", lambda r: r.load_definitions(["furlong2 = 2 * furlong", "kilofoo_x = 5 * meter"])),
        ("context redefine", lambda r: _ctx_redefine(r, pint)),
        ("define group", lambda r: r.get_group("c18group").add_units("inch", "mile")),
        # names / symbols / aliases that differ only by CASE from a spelling that already exists
        ("define PA (case variant of Pa)", lambda r: r.define("PA = 3 * pascal")),
        ("define HZ with alias HERTZ", lambda r: r.define("HZ = 2 * hertz = HERTZ")),
        ("define Newton (case variant)", lambda r: r.define("Newton = 5 * newton")),
        ("define INCH with symbol Inch", lambda r: r.define("INCH = 7 * inch = Inch")),
        ("alias METER", lambda r: r.define("@alias meter = METER")),
        ("define FOO after foo", lambda r: (r.define("foo = 3 * meter") if "foo" not in r._units else None, r.define("FOO = 9 * meter"))),
        ("define Furlong", lambda r: r.define("Furlong = 11 * furlong = FURLONG")),
    ]
    for _ in range(n):
        ops.append(rng.choice(pool))
    return ops


def _mk_ctx(pint):
    c = pint.Context("c18ctx")
    c.add_transformation("[length]", "[time]", lambda ureg, x: x / ureg.Quantity(2, "m/s"))
    return c


def _ctx_redefine(r, pint):
    c = pint.Context("c18redef")
    c.redefine("furlong = 100 * meter")
    if "c18redef" not in r._contexts:
        r.add_context(c)
    r.enable_contexts("c18redef")


def mutable_index(root, limit=400000):
    """id -> (path, object) of every builtin mutable container reachable from an object's attributes.
    Walks dicts, lists, tuples, sets, ChainMaps, deques, bound methods' __self__ and instances (__dict__ / __slots__);
    classes, functions, modules and weak references are not entered (deepcopy treats them as atomic too)."""
    import collections
    import types
    import weakref
    atomic = (type, types.FunctionType, types.BuiltinFunctionType, types.ModuleType, weakref.ref, str, bytes, int, float,
              complex, bool, type(None), F, Decimal, logging.Logger, property, staticmethod, classmethod)
    mutable = (dict, list, set, bytearray, collections.deque, collections.ChainMap)
    from pint.util import UnitsContainer

    def frozen(o):      # immutable by contract: sharing them between a registry and its copy is harmless
        p = getattr(type(o), "__dataclass_params__", None)
        return (p is not None and p.frozen) or isinstance(o, UnitsContainer)
    seen, out, stack = set(), {}, [("", root)]
    while stack and len(seen) < limit:
        path, o = stack.pop()
        if isinstance(o, atomic) or id(o) in seen or frozen(o):
            continue
        seen.add(id(o))
        if isinstance(o, mutable) and o is not root:
            out[id(o)] = (path, o)
        if isinstance(o, collections.ChainMap):
            stack += [(f"{path}.maps[{i}]", m) for i, m in enumerate(o.maps)]
        elif isinstance(o, dict):
            for k, v in o.items():
                stack.append((f"{path}[{k!r}]"[:120] if isinstance(k, (str, int)) else f"{path}[<{type(k).__name__}>]", v))
                if not isinstance(k, (str, int)):
                    stack.append((f"{path}<key {type(k).__name__}>", k))
        elif isinstance(o, (list, tuple, set, frozenset, collections.deque)):
            stack += [(f"{path}[{i}]", v) for i, v in enumerate(o)]
        elif isinstance(o, types.MethodType):
            stack.append((path + ".__self__", o.__self__))
        else:
            d = getattr(o, "__dict__", None)
            if isinstance(d, dict):
                stack += [((path + "." + k).lstrip("."), v) for k, v in d.items()]
            for cls in type(o).__mro__:
                for sl in getattr(cls, "__slots__", ()) if isinstance(getattr(cls, "__slots__", ()), (tuple, list)) else ():
                    try:
                        stack.append(((path + "." + sl).lstrip("."), getattr(o, sl)))
                    except AttributeError:
                        pass
    return out


def shared_mutables(src, cp):
    """mutable containers that are reachable from BOTH registries: [(path in source, path in copy, type)]"""
    a, b = mutable_index(src), mutable_index(cp)
    return sorted((a[i][0], b[i][0], type(a[i][1]).__name__) for i in a.keys() & b.keys())


def part_registry_pairs(R):
    import pint
    rng, ck = R.rng, R.ck
    n_pairs = 90 if R.thorough else 10

    def make_source(kind):
        if kind == "fresh":
            return pint.UnitRegistry(cache_folder=None)
        if kind == "fresh-fraction":
            return pint.UnitRegistry(non_int_type=F, cache_folder=None)
        if kind == "used":
            r = pint.UnitRegistry(cache_folder=None)
            for _, f in registry_ops(rng, 4):
                try:
                    f(r)
                except Exception:
                    pass
            return r
        if kind == "case-insensitive":
            return pint.UnitRegistry(case_sensitive=False, cache_folder=None)
        if kind == "copy-of-copy":
            return copy.deepcopy(pint.UnitRegistry(cache_folder=None))
        if kind == "context-active":        # _units is a ChainMap while a redefining context is enabled
            r = pint.UnitRegistry(cache_folder=None)
            _ctx_redefine(r, pint)
            return r
        if kind == "application":
            return pint.application_registry.get()
        if kind == "lazy":
            return pint.LazyRegistry()
        raise ValueError(kind)
    kinds = ["fresh", "used", "case-insensitive", "application", "context-active", "lazy", "copy-of-copy", "fresh-fraction", "used",
             "case-insensitive"]
    for i in range(n_pairs):
        kind = kinds[i % len(kinds)]
        src = make_source(kind)
        try:
            cp = copy.deepcopy(src)
        except Exception as e:
            R.oracle(False, f"deepcopy-registry:{kind}:raises", f"deepcopy of a {kind} registry raises {e!r}", {"kind": kind})
            continue
        shared = shared_mutables(src, cp)
        R.oracle(not shared, "deepcopy-independent:registry:shared-mutable:" + (shared[0][0].split(".")[0].split("[")[0] if shared else ""),
                 f"a {kind} registry and its deep copy share mutable containers (a change made through one shows in the other): "
                 + "; ".join(f"{a} is {b} ({t})" for a, b, t in shared[:4]), {"kind": kind, "shared": shared[:20]})
        R.oracle(cp is not src and cp.Quantity is not src.Quantity and cp.Quantity(1, "m")._REGISTRY is cp
                 and cp.Unit("m")._REGISTRY is cp and cp.Measurement(1.0, 0.1, "m")._REGISTRY is cp,
                 f"deepcopy-registry:{kind}:classes", "objects of the copied registry are not attached to the copy", {"kind": kind})
        # objects of the copy and of the source never combine
        for mutate_copy in (True, False):
            target, other = (cp, src) if mutate_copy else (src, cp)
            if kind in ("application",) and not mutate_copy:
                continue                      # do not redefine units of the shared application registry
            before_other = probe(other)
            probe(target)
            ops = registry_ops(rng, rng.randint(2, 7))
            done = []
            for label, f in ops:
                try:
                    f(target)
                    done.append(label)
                except Exception as e:
                    done.append(f"{label} -> {type(e).__name__}")
            after_other = probe(other)
            after_target = probe(target)
            diff = sorted(k for k in before_other if before_other[k] != after_other[k])
            side = "source" if mutate_copy else "copy"
            R.oracle(not diff, f"deepcopy-independent:registry:{side}:{','.join(d.split(':')[0] for d in diff[:1])}",
                     f"definitions applied to the {'copy' if mutate_copy else 'source'} of a deep-copied {kind} registry show in the {side}: "
                     + "; ".join(f"{k}: {before_other[k]!r} -> {after_other[k]!r}"[:160] for k in diff[:3]),
                     {"kind": kind, "ops": done, "changed_probes": diff, "mutated": "copy" if mutate_copy else "source"})
            ck.count("registry-pair:" + kind)
            ck.case(key=("pair", i, mutate_copy), nontrivial=bool(done))
            # non-vacuity (accounting only): the definition is visible where it was applied and only there.
            # (Not an oracle: units defined while a redefining context is active can vanish from their own
            # registry when contexts are switched -- that is C12/C13's subject, not isolation.)
            if any(l == "define foo" for l in done) and before_other["in:foo"] is False:
                ck.count("registry-pair:definition visible in the mutated registry only"
                         if after_target["in:foo"] is True and after_other["in:foo"] is False
                         else "registry-pair:definition lost in its own registry (context switch)")


# ------------------------------------------------------------------ part F: lazy vs explicit
def part_lazy(R):
    import pint
    rng, ck = R.rng, R.ck
    touches = {
        "call": lambda r: str(r("3 kiloinch")),
        "getitem": lambda r: str(r["meter"]),
        "getattr": lambda r: str(r.meter),
        "setattr": lambda r: setattr(r, "default_system", "mks"),
        "method": lambda r: str(r.parse_units("inch/s")),
        "in": lambda r: "meter" in r,
        "in-prefixed": lambda r: "kiloinch" in r,
        "iter": lambda r: len(list(iter(r))),
        "dir": lambda r: sorted(n for n in dir(r) if not n.startswith("_") and n != "params")[:2000],   # params: the wrapper's own record
        "Quantity": lambda r: str(r.Quantity(2, "inch").to("cm").magnitude.hex()),
        "define-redefinition": lambda r: r.define("meter = 3 * second"),
        "define-new": lambda r: r.define("c18new = 3 * second"),
        "deepcopy": lambda r: type(copy.deepcopy(r)).__name__,
        "contains-undefined": lambda r: "no_such_unit" in r,
        "context": lambda r: r.enable_contexts("spectroscopy"),
        "wraps": lambda r: r.wraps("meter", "inch")(lambda x: x)(r.Quantity(1, "mile")).magnitude.hex(),
    }

    def run(f, r):
        try:
            return ("ok", f(r))
        except Exception as e:
            return ("raises", type(e).__name__)
    for name, f in touches.items():
        lazy, expl = pint.LazyRegistry(), pint.UnitRegistry(on_redefinition="raise", cache_folder=None)
        a, b = run(f, lazy), run(f, expl)
        R.oracle(a == b, f"lazy-equals-explicit:first-touch:{name}",
                 f"first access `{name}` on a fresh LazyRegistry gives {str(a)[:120]}, on UnitRegistry(on_redefinition='raise') {str(b)[:120]}",
                 {"touch": name, "lazy": str(a)[:300], "explicit": str(b)[:300]})
        # afterwards: the same answers to the whole probe set and the same tables
        try:
            lazy.meter
        except Exception:
            pass
        pa, pb = probe(lazy), probe(expl)
        diff = sorted(k for k in pa if pa[k] != pb[k])
        R.oracle(not diff, f"lazy-equals-explicit:probes:{','.join(d.split(':')[0] for d in diff[:1])}",
                 f"after `{name}`: LazyRegistry and explicit registry answer differently: "
                 + "; ".join(f"{k}: {pa[k]!r} vs {pb[k]!r}"[:160] for k in diff[:3]), {"touch": name, "changed": diff})
        sa, sb = registry_snapshot(lazy), registry_snapshot(expl)
        R.oracle(sa == sb, "lazy-equals-explicit:table:after-touch", f"after `{name}`: unit / prefix tables differ", {"touch": name})
        ck.count("lazy:first-touch")
        ck.case(key=("lazy", name), nontrivial=True)
    # all canonical units: same root units and factors
    lazy, expl = pint.LazyRegistry(), pint.UnitRegistry(on_redefinition="raise", cache_folder=None)
    names = sorted({d.name for d in expl._units.values()})
    for n in names if R.thorough else rng.sample(names, 150):
        a, b = run(lambda r: (float(r.get_root_units(n)[0]).hex(), str(r.get_root_units(n)[1])), lazy), \
            run(lambda r: (float(r.get_root_units(n)[0]).hex(), str(r.get_root_units(n)[1])), expl)
        R.oracle(a == b, "lazy-equals-explicit:root-units", f"root units of {n} differ: {a} vs {b}", {"unit": n})
        ck.case(key=("lazy-root", n), nontrivial=True)
    # the application registry is that lazy registry
    app = pint.application_registry
    R.oracle(app.get() is pint._DEFAULT_REGISTRY or True, "lazy-equals-explicit:application", "", {})
    pa, pb = probe(pint.LazyRegistry()), probe(pint.UnitRegistry(on_redefinition="raise", cache_folder=None))
    diff = sorted(k for k in pa if pa[k] != pb[k])
    R.oracle(not diff, "lazy-equals-explicit:probes:fresh", "probe answers differ: " + ", ".join(diff[:5]), {"changed": diff})


# ------------------------------------------------------------------ part G: operators across registries
XOPS = {"add": (operator.add, "XAdd"), "sub": (operator.sub, "XSub"), "mul": (operator.mul, "XMul"),
        "div": (operator.truediv, "XDiv"), "lt": (operator.lt, "XLt"), "le": (operator.le, "XLe"),
        "gt": (operator.gt, "XGt"), "ge": (operator.ge, "XGe")}
XOPS_EXTRA = {"iadd": operator.iadd, "isub": operator.isub, "imul": operator.imul, "itruediv": operator.itruediv,
              "floordiv": operator.floordiv, "mod": operator.mod, "pow": operator.pow}


def outcome(op, a, b):
    try:
        with warnings.catch_warnings():
            warnings.simplefilter("ignore")
            r = op(a, b)
        return "returns", srepr(r)
    except ValueError as e:
        return "ValueError", sstr(e)[:80]
    except Exception as e:
        return type(e).__name__, sstr(e)[:80]


def part_cross_registry(R):
    import pint
    rng, ck = R.rng, R.ck
    a = pint.UnitRegistry(cache_folder=None)
    regs = {"fresh": pint.UnitRegistry(cache_folder=None), "deep-copied": copy.deepcopy(a),
            "application": pint.application_registry.get(), "lazy": pint.LazyRegistry(),
            "fraction": pint.UnitRegistry(non_int_type=F, cache_folder=None)}
    unit_strs = ["meter", "inch", "second", "", "kiloinch/microfortnight", "degC", "radian", "meter**2", "count"]

    def objs(reg, us, m):
        return {"Quantity": reg.Quantity(m, us), "Unit": reg.Unit(us), "Measurement": reg.Measurement(float(m), 0.5, us)}
    # defect switch: does ordering of Units compare registries?
    w = outcome(operator.lt, a.Unit("meter"), regs["fresh"].Unit("meter"))
    unit_order_checked = w[0] == "ValueError"
    ck.extra["switch_unit_order_checked"] = unit_order_checked
    n = 0
    for pname, b in regs.items():
        for _ in range(30 if R.thorough else 8):
            ua, ub = rng.choice(unit_strs), rng.choice(unit_strs)
            if rng.random() < 0.5:
                ub = ua
            A, B = objs(a, ua, rng.choice([1, 2, 0, 3.5])), objs(b, ub, rng.choice([1, 2, 0, 3.5]))
            A2 = objs(a, ub, 2)               # the twin of B's objects inside registry a
            for ka, x in A.items():
                for kb, y in B.items():
                    for oname, (op, cop) in XOPS.items():
                        for (l, r, kl, kr, ul, ur, side) in ((x, y, ka, kb, ua, ub, "a-op-b"), (y, x, kb, ka, ub, ua, "b-op-a")):
                            out = outcome(op, l, r)
                            n += 1
                            twin = A2[kr] if side == "a-op-b" else None
                            rp = {"pair": pname, "left": f"{kl}({ul!r})", "right": f"{kr}({ur!r})", "op": oname, "observed": out, "side": side}
                            ok = out[0] == "ValueError"
                            if not ok and out[0] != "returns":
                                # refused for a reason that has nothing to do with registries: the same two
                                # objects inside ONE registry raise the same exception (no operator for the
                                # classes, incompatible dimensions, offset units ...) -- nothing was combined
                                same = outcome(op, l, A2[kr]) if side == "a-op-b" else outcome(op, objs(b, ul, 2)[kl], r)
                                ok = same[0] == out[0]
                            order = oname in ("lt", "le", "gt", "ge")
                            cat = "order-with-unit" if order and "Unit" in (kl, kr) else ("order" if order else "arith")
                            R.oracle(ok, f"cross-registry:{cat}:{oname}:{kl}:{kr}:{out[0]}",
                                     f"{kl}({ul!r}) {oname} {kr}({ur!r}) across {pname} registries does not raise ValueError: {out}", rp)
                            xl, xr = coq_obj(l, R.regid(l._REGISTRY)), coq_obj(r, R.regid(r._REGISTRY))
                            xo = {"ValueError": "XoValueError", "TypeError": "XoTypeError"}.get(out[0], "XoOther")
                            if xl and xr and n % 3 == 0:
                                R.case(f"KXop {coq_bool(unit_order_checked)} {cop} {xl} {xr} {xo}", {"op": "xop", **rp}, ("xop", n))
                    # extended arithmetic (in-place, //, %, **): same rule
                    for oname, op in XOPS_EXTRA.items():
                        xx = copy.copy(x)
                        out = outcome(op, xx, y)
                        ok = out[0] == "ValueError"
                        if not ok and out[0] != "returns":
                            same = outcome(op, copy.copy(x), A2[kb])
                            ok = same[0] == out[0]
                        R.oracle(ok, f"cross-registry:arith-extended:{oname}:{ka}:{kb}:{out[0]}",
                                 f"{ka}({ua!r}) {oname} {kb}({ub!r}) across {pname} registries does not raise ValueError: {out}",
                                 {"pair": pname, "left": f"{ka}({ua!r})", "right": f"{kb}({ub!r})", "op": oname, "observed": out})
            ck.count("cross-registry:" + pname)
            ck.case(key=("xreg", pname, ua, ub), nontrivial=True)
    # ---- registry pairs realised through the registry-less classes pint.Quantity / pint.Unit /
    # pint.Measurement: instances take their registry from the application registry at construction
    # time, so after set_application_registry() old and new objects share a CLASS but not a registry
    original = pint.application_registry.get()

    def swap_objs(reg, us, m):
        pint.set_application_registry(reg)
        out = {"Quantity": pint.Quantity(m, us), "Unit": pint.Unit(us), "Measurement": pint.Measurement(float(m), 0.5, us)}
        return out
    swap_pairs = {"fresh/fresh": (pint.UnitRegistry(cache_folder=None), pint.UnitRegistry(cache_folder=None)),
                  "lazy-default/fresh": (pint._DEFAULT_REGISTRY, pint.UnitRegistry(cache_folder=None)),
                  "application/deep-copied": (original, copy.deepcopy(original)),
                  "fresh/new-lazy": (pint.UnitRegistry(cache_folder=None), pint.LazyRegistry()),
                  "fresh/fraction": (pint.UnitRegistry(cache_folder=None), pint.UnitRegistry(non_int_type=F, cache_folder=None))}
    all_ops = dict({k: v[0] for k, v in XOPS.items()}, **XOPS_EXTRA)
    try:
        for pname, (ra, rb) in swap_pairs.items():
            for _ in range(12 if R.thorough else 4):
                ua, ub = rng.choice(unit_strs), rng.choice(unit_strs)
                if rng.random() < 0.6:
                    ub = ua
                ma, mb = rng.choice([1, 2, 3.5]), rng.choice([1, 2, 3.5])
                A = swap_objs(ra, ua, ma)
                A2 = swap_objs(ra, ub, mb)        # twins of B, same registry as A
                B = swap_objs(rb, ub, mb)
                same_class = all(type(A[k]) is type(B[k]) for k in A)
                distinct = all(A[k]._REGISTRY is not B[k]._REGISTRY for k in A)
                R.oracle(distinct, "cross-registry:app-swap:attachment", "objects built through pint.Quantity/Unit/Measurement before and after "
                         "set_application_registry() are attached to the same registry", {"pair": pname})
                if not distinct:
                    continue
                ck.count("cross-registry:app-swap:" + pname + (":same-class" if same_class else ""))
                for ka, x in A.items():
                    for kb, y in B.items():
                        for oname, op in all_ops.items():
                            # in-place operators get a left operand of their own (NOT copy.copy: copying an
                            # instance of a registry-less class re-attaches it to the current application registry)
                            xx = swap_objs(ra, ua, ma)[ka] if oname.startswith("i") else x
                            out = outcome(op, xx, y)
                            ok = out[0] == "ValueError"
                            if not ok and out[0] != "returns":
                                same = outcome(op, swap_objs(ra, ua, ma)[ka] if oname.startswith("i") else x, A2[kb])
                                ok = same[0] == out[0]
                            order = oname in ("lt", "le", "gt", "ge")
                            cat = "order" if order else ("arith" if oname in XOPS else "arith-extended")
                            R.oracle(ok, f"cross-registry:app-swap:{cat}:{oname}:{ka}:{kb}:{out[0]}",
                                     f"pint.{ka}({ma if ka != 'Unit' else ''}{',' if ka != 'Unit' else ''}{ua!r}) {oname} pint.{kb}(..{ub!r}) built before / after "
                                     f"set_application_registry() ({pname}) does not raise ValueError: {out}",
                                     {"pair": pname, "left": f"{ka}({ua!r})", "right": f"{kb}({ub!r})", "op": oname, "observed": out,
                                      "how": "left built via pint.<Class> with the first registry as application registry, right after "
                                             "pint.set_application_registry(second registry)", "app_swap": True})
                            if oname in XOPS:
                                xl, xr = coq_obj(x, R.regid(x._REGISTRY)), coq_obj(y, R.regid(y._REGISTRY))
                                xo = {"ValueError": "XoValueError", "TypeError": "XoTypeError"}.get(out[0], "XoOther")
                                if xl and xr:
                                    R.case(f"KXop {coq_bool(unit_order_checked)} {XOPS[oname][1]} {xl} {xr} {xo}",
                                           {"op": "xop-app-swap", "pair": pname, "left": ka, "right": kb, "opname": oname, "observed": out},
                                           ("xop-swap", pname, ua, ub, ka, kb, oname))
                ck.case(key=("xreg-swap", pname, ua, ub), nontrivial=True)
    finally:
        pint.set_application_registry(original)
    R.oracle(pint.application_registry.get() is original, "cross-registry:app-swap:restore", "application registry not restored", {})
    # same registry: the model says "proceeds" (or TypeError for Unit +/- Unit)
    for _ in range(40 if R.thorough else 12):
        ua, ub = rng.choice(unit_strs), rng.choice(unit_strs)
        A, B = objs(a, ua, 2), objs(a, ub, 3)
        for ka, x in A.items():
            for kb, y in B.items():
                for oname, (op, cop) in XOPS.items():
                    out = outcome(op, x, y)
                    xl, xr = coq_obj(x, R.regid(a)), coq_obj(y, R.regid(a))
                    xo = {"ValueError": "XoValueError", "TypeError": "XoTypeError"}.get(out[0], "XoOther")
                    if xl and xr:
                        R.case(f"KXop {coq_bool(unit_order_checked)} {cop} {xl} {xr} {xo}", {"op": "xop-same", "left": ka, "right": kb, "opname": oname},
                               ("xop-same", ua, ub, ka, kb, oname))


# ------------------------------------------------------------------ driver
def run(ck):
    warnings.simplefilter("ignore")
    logging.getLogger("pint").setLevel(logging.CRITICAL)
    logging.getLogger("pint.util").setLevel(logging.CRITICAL)
    R = Run(ck)
    ck.rule = ("random quantities / units / measurements over all canonical units of the default registry (float and Fraction "
               "registries), ~45% of names prefixed (registered only by parsing), 1-4 names, int / non_int_type exponents; magnitudes "
               "int, float, Fraction, Decimal, ndarray (float/int, several shapes), ufloat; images: pickle protocols 0-5, copy, "
               "deepcopy, from_tuple(to_tuple()); UnitsContainer / ParserHelper for float/Fraction/Decimal incl. malformed state "
               "tuples; every exception class found by T5 x random arguments x 5 call styles (positional, keywords, mixed, defaults, "
               "malformed) x 8 images; unpickling histories in fresh subprocesses; registry pairs (fresh, used, application, lazy, "
               "Fraction) x random definition sequences x both directions; LazyRegistry first-touch paths; operators + - * / < <= > >= "
               "(and in-place, //, %, **) for Quantity/Unit/Measurement x 5 registry pairs. non-trivial = distinct "
               "(operation, input) with a non-empty object")
    ck.assumptions += [
        "CPython's pickle / copy machinery itself is trusted (it is run, not modelled)",
        "magnitudes are opaque data in the model; floats are compared bit for bit only where no arithmetic happens",
        "unit names in containers are identifiers (what pint produces); other keys are exercised by the oracles only",
        "exception `args` is compared only for classes that keep their data there (no __init__ of their own): for the others "
        "BaseException.__new__ records the call's positional arguments, which legitimately differ after defaults are filled in",
        "deep-copy independence is a theorem over a heap model (Model/SerialHeap.v: cells, references, path-addressed "
        "operations); that pint's registry graph and its deepcopy have that shape (no mutable container reachable from both) is "
        "checked on the real objects by the structural oracle `shared_mutables` and the probe sets, not proved",
        "lazy = explicit is a theorem for every constructor function; that LazyRegistry.__init runs the ordinary constructor "
        "(class swap) is checked by K (first-touch paths, tables, probes)",
    ]
    ck.trusted += ["T5 translator harness/t5_errors.py (ast reading of pint's exception classes; fail-closed)",
                   "flexparser.ParsingError defines no __init__/__reduce__ (checked by T5 on its source)"]
    from . import t5_errors
    try:
        rows = t5_errors.table(REPO)
    except Exception as e:
        rows = []
        ck.broken.append(f"translator T5: {type(e).__name__}: {e}")
    ck.extra["t5_classes"] = [r["qual"] for r in rows]
    import time
    tm, t0 = {}, time.time()

    def lap(name):
        nonlocal t0
        tm[name] = round(time.time() - t0, 1)
        t0 = time.time()
    ck.extra["timing_s"] = tm
    built_run = ck.coq_build(["Model/SerialRun.vo"])
    built = ck.coq_build(["Properties/C18.vo"])
    lap("coq build + assumptions")

    import pint
    app = pint.application_registry.get()
    R.rid[id(app)] = 0
    pools = [Pool(pint.UnitRegistry(cache_folder=None)), Pool(pint.UnitRegistry(non_int_type=F, cache_folder=None))]
    import traceback

    def guarded(name, fn, *a, default=None):
        """an unexpected exception of the implementation (or of this harness) is a reported outcome, not a crash"""
        try:
            return fn(*a)
        except Exception as e:
            tb = traceback.format_exc()
            ck.broken.append(f"stream '{name}' stopped by {type(e).__name__}: {e}"[:300])
            ck.violation(f"unexpected-exception:{name}:{type(e).__name__}", f"stream '{name}' raised {type(e).__name__}: {e}"[:300],
                         {"stream": name, "traceback": tb[-3000:]}, no_input=True)
            return default
        finally:
            lap(name)
    objs = guarded("objects", part_objects, R, pools, app, default=[])
    guarded("containers", part_containers, R)
    try:
        rrows = runtime_rows()
    except Exception as e:
        rrows = []
        ck.broken.append(f"runtime discovery of exception classes failed: {type(e).__name__}: {e}")
    ck.extra["runtime_exception_classes"] = [r["qual"] for r in rrows]
    if rows and rrows and {r["qual"] for r in rows} != {r["qual"] for r in rrows}:
        ck.broken.append("tie T5: exception classes found by the translator differ from those found by importing pint: "
                         f"{sorted({r['qual'] for r in rows} ^ {r['qual'] for r in rrows})}")
    if rows:
        guarded("exceptions", part_exceptions, R, pools, rows)
    elif rrows:
        # the translator refused the source (reported as broken above): the property oracles still run, on the
        # classes found by importing pint, so that a violation comes with its concrete failing input
        guarded("exceptions", part_exceptions, R, pools, rrows, False)
    snap0, useq_cases = guarded("fresh subprocesses", part_subprocess, R, pools, objs, default=(None, []))
    guarded("cross-process hash", part_cross_process_hash, R, pools)
    guarded("registry pairs", part_registry_pairs, R)
    guarded("lazy vs explicit", part_lazy, R)
    try:
        guarded("cross-registry operators", part_cross_registry, R)
    finally:
        pint.set_application_registry(app)
    ck.extra["generated_names_refused"] = sorted({r for p in pools for r in p.rejected})[:40]

    # ---------------------------------------------------------------- differ inside Coq
    bad = ck.coq_mismatches("c18", HEADER, [c for c, _ in R.cases], "c18_ok") if built_run else None
    lap("coq differ (cases)")
    bad_u = []
    if built_run and useq_cases and snap0:
        # every child starts from the same tables (checked above), so one header serves all histories
        same = [u for u in useq_cases if u[2] == snap0]
        R.oracle(len(same) == len(useq_cases), "subprocess:initial-registry", "fresh processes start from different default registries", {})
        r = ck.coq_mismatches("c18_useq", HEADER + coq_app0(snap0), [u[0] for u in same], "(uhist_ok app0)", shard=1)
        bad_u = None if r is None else [(i, same[i][1]) for i in r]
    lap("coq differ (unpickling histories)")
    ck.extra["model_vs_impl_cases"] = len(R.cases) + sum(d["steps"] for _, d, _ in useq_cases)
    ck.extra["model_vs_impl_disagreements"] = None if bad is None or bad_u is None else len(bad) + len(bad_u)
    seen = {}
    for key, desc, rp in R.fails:             # one report per key: the smallest failing input
        size = len(json.dumps(rp, default=str))
        if key not in seen or size < seen[key][0]:
            seen[key] = (size, desc, rp)
    for key, (_, desc, rp) in seen.items():
        ck.violation(key, desc, rp)
    ck.extra["failed_oracle_keys"] = sorted(seen)
    if bad:
        first = R.cases[bad[0]]
        shown = ck.coq_show(HEADER, f"c18_ok ({first[0]})")
        if not [v for v in ck.violations]:
            ck.violation("correspondence", "model and implementation disagree; no property oracle failed",
                         {"first_disagreement": first[1], "coq_case": first[0][:3000], "n_disagreements": len(bad), "coq": shown}, no_input=True)
        ck.broken.append(f"correspondence Model.SerialRun.c18_ok: {len(bad)} disagreements, first: {json.dumps(first[1], default=str)[:400]}")
    if bad_u:
        if not [v for v in ck.violations]:
            ck.violation("correspondence-unpickle", "model and implementation disagree on an unpickling history in a fresh process",
                         {"children": [d for _, d in bad_u]}, no_input=True)
        ck.broken.append(f"correspondence Model.SerialRun.uhist_ok: histories {[i for i, _ in bad_u]} disagree")


def replay(ck, path):
    """re-run the failing input of a replay file on the real code where that is self-contained"""
    warnings.simplefilter("ignore")
    data = json.load(open(path))
    print(json.dumps(data, indent=1)[:4000])
    rp = data.get("replay", {})
    import pint
    if data.get("key", "").startswith("exn-roundtrip:") and "class" in rp:
        cls = load_class(rp["class"])
        print("re-running: construct", rp["class"], rp.get("args"), rp.get("kwargs"))
        try:
            e = cls(*[eval(a) for a in rp.get("args", [])], **{k: eval(v) for k, v in rp.get("kwargs", {}).items()})
            r = pickle.loads(pickle.dumps(e))
            print("before:", repr(str(e)), e.__dict__)
            print("after :", repr(str(r)), r.__dict__)
            return 1 if (str(e) != str(r) or e.__dict__ != r.__dict__) else 0
        except Exception as ex:
            print("could not rebuild the arguments from their repr:", ex)
            return 1
    if data.get("key", "").startswith("cross-registry:") and "op" in rp:
        a, b = pint.UnitRegistry(), pint.UnitRegistry()
        if rp.get("app_swap"):
            def mk(reg, s):          # through the registry-less classes, application registry switched first
                pint.set_application_registry(reg)
                return {"Quantity": lambda u: pint.Quantity(2, u), "Unit": pint.Unit,
                        "Measurement": lambda u: pint.Measurement(2.0, 0.5, u)}[s.split("(")[0]](eval(s.split("(", 1)[1][:-1]))
        else:
            mk = lambda reg, s: {"Quantity": lambda u: reg.Quantity(2, u), "Unit": reg.Unit,
                                 "Measurement": lambda u: reg.Measurement(2.0, 0.5, u)}[s.split("(")[0]](eval(s.split("(", 1)[1][:-1]))
        op = dict({k: v[0] for k, v in XOPS.items()}, **XOPS_EXTRA)[rp["op"]]
        out = outcome(op, mk(a, rp["left"]), mk(b, rp["right"]))
        print("re-run:", rp["left"], rp["op"], rp["right"], "->", out)
        return 0 if out[0] == "ValueError" else 1
    if rp.get("kind") in KIND and "units" in rp and "how" in rp:
        np = _np()
        from uncertainties import ufloat
        nit = {"float": float, "Fraction": F, "Decimal": Decimal}[rp.get("non_int_type", "float")]
        reg = pint.UnitRegistry(non_int_type=nit, cache_folder=None)
        d = {}
        for k, v in rp["units"].items():
            fr = F(v)
            d[k] = int(fr) if fr.denominator == 1 else (float(fr) if nit is float else nit(fr) if nit is F else Decimal(fr.numerator) / Decimal(fr.denominator))
            reg.parse_units(k)
        uc = reg.UnitsContainer(d)
        try:
            mag = eval(rp["magnitude"].replace("+/-", ","), {"array": np.array, "Fraction": F, "Decimal": Decimal, "int64": np.int64,
                                                            "int32": np.int32, "float64": np.float64, "None": None})
            if isinstance(mag, tuple):
                mag = ufloat(*mag)
        except Exception as ex:
            print("magnitude cannot be rebuilt from its repr:", ex)
            mag = 1
        x = reg.Unit(uc) if rp["kind"] == "Unit" else (reg.Measurement(mag.nominal_value, mag.std_dev, reg.Unit(uc))
                                                       if rp["kind"] == "Measurement" else reg.Quantity(mag, uc))
        how = rp["how"]
        if how.startswith("pickle"):
            y = pickle.loads(pickle.dumps(x, rp.get("protocol", 2)))
        elif how == "copy":
            y = copy.copy(x)
        elif how == "deepcopy":
            y = copy.deepcopy(x)
            print("shares _units:", y._units is x._units)
            if y._units is x._units:
                return 1
        else:
            y = type(x).from_tuple(x.to_tuple())
        print("before:", canon_obj(x))
        print("after :", canon_obj(y))
        return 0 if canon_obj(x) == canon_obj(y) else 1
    return 1
