"""Child process of the C18 check: a FRESH interpreter, hence a fresh application registry.

    python -m harness.c18_child <job.pickle> <out.json>

job = {"snapshot": bool, "blobs": [(id, bytes), ...], "convert": bool}
For every blob, in order: unpickle it, report what came back (canonical data only, no pint
objects), which keys appeared in application_registry._units, and the base-unit conversion.
pint is imported from PYTHONPATH (set by the parent to harness.common.REPO).
"""
import json
import pickle
import sys
import warnings


def main(inp, outp):
    warnings.simplefilter("ignore")
    with open(inp, "rb") as f:
        job = pickle.load(f)
    import pint
    from . import c18 as H
    app = pint.application_registry.get()
    if job.get("mode") == "produce":
        # build, USE (hash the container, compare, convert), then pickle with every protocol
        import base64
        blobs = []
        for spec in job["specs"]:
            o = H.build_spec(app, spec)
            u = H.units_of(o) if spec[0] != "exception" else o.units1
            hash(u)
            if spec[0] == "exception":
                hash(o.units2._units)
                str(o)
            assert u == u
            if hasattr(o, "to_base_units"):
                try:
                    o.to_base_units()
                except Exception:
                    pass
            blobs.append([base64.b64encode(pickle.dumps(o, p)).decode() for p in range(pickle.HIGHEST_PROTOCOL + 1)])
        with open(outp, "w") as f:
            json.dump({"pint_file": pint.__file__, "blobs": blobs, "hashseed": __import__("os").environ.get("PYTHONHASHSEED")}, f)
        return
    out = {"pint_file": pint.__file__, "steps": []}
    lazy_before = type(app).__name__
    units0 = set(app._units)           # first touch: builds the lazy default registry
    out["lazy_before"] = lazy_before
    out["lazy_after"] = type(app).__name__
    if job.get("snapshot"):
        out["snapshot"] = H.registry_snapshot(app)
    out["n_units0"] = len(units0)
    if job.get("contexts"):
        # a context that REDEFINES a unit: enabling it puts an overlay on app._units
        ctx = pint.Context("c18redef")
        ctx.redefine("calorie = 4 * joule")
        app.add_context(ctx)
    for bid, blob in job["blobs"]:
        before = set(app._units)
        step = {"id": bid}
        if isinstance(blob, tuple):                 # a history event other than an unpickling
            step["ev"] = blob[0]
            try:
                if blob[0] == "enter":
                    app.enable_contexts("c18redef")
                elif blob[0] == "leave":
                    app.disable_contexts()
                elif blob[0] == "parse":
                    app.parse_units(blob[1])
                step["out"] = "ok"
            except pint.UndefinedUnitError as e:
                step["out"] = "undefined"
                step["names"] = list(e.unit_names)
            except pint.OffsetUnitCalculusError:
                step["out"] = "offset"
            except Exception as e:
                step["out"] = "other"
                step["err"] = f"{type(e).__name__}: {e}"[:300]
            after = set(app._units)
            step["new"], step["gone"] = sorted(after - before), sorted(before - after)
            out["steps"].append(step)
            continue
        try:
            obj = pickle.loads(blob)
        except pint.UndefinedUnitError as e:
            step["out"] = "undefined"
            step["names"] = list(e.unit_names)
        except pint.OffsetUnitCalculusError:
            step["out"] = "offset"
        except Exception as e:       # anything else is reported, never swallowed
            step["out"] = "other"
            step["err"] = f"{type(e).__name__}: {e}"[:300]
        else:
            step["out"] = "ok"
            step["kind"] = H.kind_of(obj, app)
            step["attached"] = obj._REGISTRY is pint.application_registry.get()
            step["canon"] = H.jsonable(H.canon_obj(obj))
            step["order"] = list(obj._units._d)
            step["missing"] = [n for n in obj._units._d if n not in app._units]
            step["render"] = H.render(obj)           # looks every unit's definition up (before anything self-heals)
            if job.get("convert"):
                step["base"] = H.base_probe(obj)
        step["new"] = sorted(set(app._units) - before)
        out["steps"].append(step)
    with open(outp, "w") as f:
        json.dump(out, f)


if __name__ == "__main__":
    main(sys.argv[1], sys.argv[2])
