"""C19 — measurements carry uncertainty consistently through conversion and arithmetic.

Theorems: coq/Properties/C19.v (over Model/Measure.v — exact first-order affine forms — and
Model/UncTok.v — the token rewriting of `uncertainty_tokenizer`).

Correspondence K (Model/MeasureRun.v, differ inside Coq):
  * the REAL `uncertainty_tokenizer` against the model on the real token lists of generated
    strings (every notation: parenthesised `( v +/- u )`, unicode ±, sign inside / outside,
    short `v(u)`, with / without exponent in all three spellings `e5`, `e+05`, `E-5`, `nan`,
    spacing variants, followers incl. the end of the input), a conservative stream of ordinary
    expressions and a malformed stream; type, text, start and end of every token compared;
  * Python's tokenizer yields the model's rendered token cores for every notation instance;
  * the tree `build_eval_tree(uncertainty_tokenizer(s))`; the numbers around `+/-` denote the
    nominal value / standard deviation `ureg(s)` reports;
  * `_OP_PRIORITY`; `join_unc`;
  * conversion as an exact affine map a·x+b (Fraction registry) for compatible unit pairs
    incl. offset and delta units; constructor normalisation of every form; value / error / rel
    after conversion; random arithmetic expressions with shared variables for the Measurement
    class and for Quantity holding a ufloat: nominal value and variance (`std_dev**2`) against
    the model's exact rationals within 1e-12 of a running magnitude bound (`uncertainties`
    computes in binary floats: this part is differential TESTING, labelled so).
Oracles decide the property statement on pint alone (see ORACLES below); among them the
one-object history oracle (reads of value / error / rel, in-place conversions ito / ito_base_units /
ito_root_units / ito_reduced_units, refused conversions, in-place conversion of a RETURNED value, then
re-reads: the accessors must report the object's current magnitude and units and agree with a fresh
measurement converted out of place; the final reports also go to the model), the
bare-operand oracle (a bare ufloat 0 +/- s against dimensioned Quantity / Quantity(ufloat) /
Measurement for + - < <= > >= ==, both operand orders, must meet the outcome of the plain quantity
with a plain number of the same zero-ness; the + / - cases also go to the model) and the
derived-correlation oracle: one expression tree with shared variables and filled-in conversions
(random trees incl. **, and the histories m - m.to(u), 3*m - m, (m+m)+m, (m*t)/m, (m/t)*t, m**2/m,
K -> degC -> K) evaluated on Measurement objects (every constructor form), on Quantity objects
holding the same ufloats and on bare ufloats with exact slopes must agree in nominal value,
std_dev and units, and Measurement result minus Quantity result must be 0 +/- 0.
"""
import json
import math
import random
import tokenize
import token as tokenlib
import warnings
from fractions import Fraction as F

from .common import coq_bool, coq_list, coq_opt, coq_q, coq_str, coq_uc

warnings.filterwarnings("ignore", message="Using UFloat objects with std_dev==0")
warnings.filterwarnings("ignore", message=r"AffineScalarFunc\.__\w+__\(\) is deprecated", category=FutureWarning)

HEADER_T = ("From PintV Require Import Model.UC Model.Eval Model.Registry Model.UCRun Model.Measure "
            "Model.UncTok Model.MeasureRun Gen.DefaultDefs Gen.DefaultReg.\n"
            "Open Scope string_scope.\n"
            "Definition qk : quirks := Quirks {eof} {short} {epre}.\n"
            "Definition ok (c : c19case) : bool := c19_ok qk default_reg c.\n"
            "Definition ok_noreg (c : c19case) : bool := c19_ok qk empty_reg c.\n")

RTOL = 1e-12

TY = {tokenlib.NUMBER: "TyNumber", tokenlib.NAME: "TyName", tokenlib.OP: "TyOp",
      tokenlib.STRING: "TyString", tokenlib.NEWLINE: "TyNewline", tokenlib.ENDMARKER: "TyEnd"}


# ---------------------------------------------------------------------------- helpers
def coq_tok(t):
    return (f"(UTok {TY.get(t.type, 'TyOther')} {coq_str(t.string)} "
            f"({t.start[0]}, {t.start[1]})%Z ({t.end[0]}, {t.end[1]})%Z)")


def coq_toks(ts):
    return coq_list([coq_tok(t) for t in ts])


def ecls(e):
    import pint
    name = type(e).__name__
    if isinstance(e, IndexError):
        return "XIndex"
    if isinstance(e, pint.errors.DimensionalityError):
        return "XDim"
    if isinstance(e, pint.errors.OffsetUnitCalculusError):
        return "XOffset"
    if isinstance(e, pint.errors.UndefinedUnitError):
        return "XUndefined"
    if name == "NegativeStdDev":          # uncertainties' own refusal of a negative σ
        return "XNegStd"
    if isinstance(e, ValueError):
        return "XValue"
    if isinstance(e, AssertionError):
        return "XAssert"
    if isinstance(e, ZeroDivisionError):
        return "XZeroDiv"
    if isinstance(e, RuntimeError):
        return "XRuntime"
    if isinstance(e, TypeError):
        return "XType"
    return "XOtherErr"


def ucd(container):
    return {k: F(v) for k, v in container.items()}


def fr(x):
    """a float (or int) as the exact rational it is; nan/inf -> None"""
    if isinstance(x, float) and (math.isnan(x) or math.isinf(x)):
        return None
    return F(x)


def dec(mant, exp10):
    """mant * 10**exp10 as an exact Fraction and as a decimal literal accepted by float()"""
    return F(mant) * F(10) ** exp10, f"{mant}e{exp10}"


def close(a, b, rt=RTOL, scale=None):
    a, b = F(a), F(b)
    s = abs(b) if scale is None else F(scale)
    return abs(a - b) <= F(rt) * s


class World:
    def __init__(self):
        import pint
        from pint import pint_eval
        self.pint = pint
        self.pe = pint_eval
        self.ureg = pint.UnitRegistry(cache_folder=None)
        self.ur = pint.UnitRegistry(non_int_type=F, cache_folder=None)   # exact conversions
        self.Q, self.M = self.ureg.Quantity, self.ureg.Measurement

    # ------------------------------------------------------------------ defect switches
    def quirks(self):
        pe = self.pe
        q = {"eof": True, "short": True, "epre": True, "blind": True}
        try:
            list(pe.uncertainty_tokenizer("1.0(1)"))
            q["eof"] = False
        except IndexError:
            q["eof"] = True
        except Exception:
            pass
        try:
            t = [x.string for x in pe.uncertainty_tokenizer("1.23(4) m")]
            q["short"] = t[2] != "0.04"
        except Exception:
            pass
        try:
            t = [x.string for x in pe.uncertainty_tokenizer("(4.0+/-0.1)eV+3 eV")]
            q["epre"] = t[0] != "4.0"
        except Exception:
            pass
        # the two deviations of _build_eval_tree (owned by C07; selected here for the tree cases only)
        def tree(text):
            return pe.build_eval_tree(pe.plain_tokenizer(text)).to_string()
        q["paren_any"], q["pow_exempt"] = True, True
        try:
            q["paren_any"] = tree("6/2(x)") != "((6 / 2) x)"
        except Exception:
            pass
        try:
            q["pow_exempt"] = tree("a/b**2") != "(a / (b ** 2))" or \
                pe.build_eval_tree(pe.uncertainty_tokenizer("1.0(1)**2 m")).to_string() != "(((1.0 +/- 0.1) ** 2) m)"
        except Exception:
            pass
        try:
            self.M(20, 0.5, "degC") + self.M(10, 0.5, "degC")
            q["blind"] = True
        except self.pint.errors.OffsetUnitCalculusError:
            q["blind"] = False
        except Exception:
            pass
        return q

    def plain_tokens(self, s):
        return list(self.pe.plain_tokenizer(s.replace("±", "+/-")))

    def unc_tokens(self, s):
        return list(self.pe.uncertainty_tokenizer(s))


# ---------------------------------------------------------------------------- notation instances
def rnd_literal(rng, kind=None):
    """a decimal literal text (what uncertainties / people write)"""
    kind = kind or rng.choice(["d.d", "d.d", "d.d", "d", "d.", ".d", "0.d"])
    ip = str(rng.choice([0, 1, 2, 7, 12, 120, 1234, rng.randint(0, 99999)]))
    fp = "".join(rng.choice("0123456789") for _ in range(rng.randint(1, 5)))
    if kind == "d.d":
        return ip + "." + fp
    if kind == "d":
        return ip
    if kind == "d.":
        return ip + "."
    if kind == ".d":
        return "." + fp
    return "0." + fp


def rnd_exp(rng):
    """exponent style: None | ('digits', ds) | ('signed', cap, neg, ds)"""
    r = rng.random()
    if r < 0.3:
        return None
    ds = rng.choice(["5", "05", "12", "0", "00", "3", "20", "007", str(rng.randint(0, 20)), "0" + str(rng.randint(1, 20))])
    if r < 0.5:
        return ("digits", ds)
    return ("signed", rng.random() < 0.25, rng.random() < 0.5, ds)


def exp_text(e):
    if e is None:
        return ""
    if e[0] == "digits":
        return "e" + e[1]
    return ("E" if e[1] else "e") + ("-" if e[2] else "+") + e[3]


def exp_value(e):
    if e is None:
        return 0
    if e[0] == "digits":
        return int(e[1])
    return -int(e[3]) if e[2] else int(e[3])


def model_etext(e):
    """the exponent text the tokenizer appends (always lower-case e)"""
    if e is None:
        return ""
    if e[0] == "digits":
        return "e" + e[1]
    return "e" + ("-" if e[2] else "+") + e[3]


PAREN_LAYOUTS = ["({m}{v} +/- {u})", "({m}{v}+/-{u})", "( {m}{v} +/- {u} )", "({m}{v} ± {u})", "({m}{v}±{u})",
                 "({m}{v} + / - {u})", "({m}{v} +/-{u})", "({m} {v} +/- {u})"]
SHORT_LAYOUTS = ["{v}({u})", "{v} ({u})", "{v}( {u} )"]
FOLLOW_UNIT = [" m", "*m", " meter", " m**2", " m/s", "m", " km"]


def rnd_instance(rng):
    """a notation instance as a JSON-able dict"""
    style = rng.choice(["paren", "paren", "short"])
    nan_v = nan_u = False
    if style == "paren":
        v = rnd_literal(rng)
        u = rnd_literal(rng)
        if rng.random() < 0.06:
            v, nan_v = "nan", True
        if rng.random() < 0.06:
            u, nan_u = "nan", True
        layout = rng.choice(PAREN_LAYOUTS)
        minus = rng.random() < 0.25
    else:
        v = rnd_literal(rng, rng.choice(["d.d", "d.d", "d.d", "d", "0.d", "d."]))
        nd = len(v.partition(".")[2])
        r = rng.random()
        if r < 0.45 and nd > 0:      # as many digits as v has decimals (what uncertainties renders most often)
            u = "".join(rng.choice("0123456789") for _ in range(nd))
            u = (rng.choice("123456789") + u[1:]) if u else "1"
        elif r < 0.85:
            u = str(rng.choice([1, 2, 4, 10, 12, 25, 99, 120]))
        else:
            u = rnd_literal(rng, "d.d")
        layout = rng.choice(SHORT_LAYOUTS)
        minus = False
    return {"style": style, "v": v, "u": u, "exp": rnd_exp(rng), "layout": layout, "minus": minus,
            "esp": rng.random() < 0.1}


def inst_text(n):
    s = n["layout"].format(m="-" if n["minus"] else "", v=n["v"], u=n["u"])
    if n["exp"] is not None:
        s += (" " if n["esp"] else "") + exp_text(n["exp"])
    return s


def coq_core(ty, s):
    return f"({ty}, {coq_str(s)})"


def coq_inst(n):
    def lit(t):
        return coq_core("TyName" if t == "nan" else "TyNumber", t)
    e = n["exp"]
    if e is None:
        es = "ENone"
    elif e[0] == "digits":
        es = f"(EDigits {coq_str(e[1])})"
    else:
        es = f"(ESigned {coq_bool(e[1])} {coq_bool(e[2])} {coq_str(e[3])})"
    st = f"(SParen {coq_bool(n['minus'])})" if n["style"] == "paren" else "SShort"
    return f"(NInst {lit(n['v'])} {lit(n['u'])} {es} {st})"


def inst_expected(n):
    """what the notation denotes: (nominal, std) as Fractions (None = nan).  Concise notation
    v(u): the digits of an integer u count in units of the last digit of v; a u written with a
    decimal point is absolute (the convention of `uncertainties`)."""
    p10 = F(10) ** exp_value(n["exp"])
    v = None if n["v"] == "nan" else F(n["v"]) * p10
    if v is not None and n["minus"]:
        v = -v
    if n["u"] == "nan":
        u = None
    elif n["style"] == "short" and "." not in n["u"]:
        nd = len(n["v"].partition(".")[2])
        u = F(int(n["u"])) / F(10) ** nd * p10
    else:
        u = F(n["u"]) * p10
    return v, u


def inst_expected_texts(n):
    """token texts of the property statement: [v·10^e ; +/- ; u·10^e] written with the source
    digits (the tokenizer does not touch zero or nan mantissas)"""
    et = model_etext(n["exp"])

    def app(t):
        if t == "nan":
            return t
        try:
            if float(t) == 0.0:
                return t
        except ValueError:
            return None
        return t + et
    return app(n["v"]), app(n["u"])


# ---------------------------------------------------------------------------- ORACLES (pint alone)
def oracle_tokens(w, n, follow):
    """the notation instance followed by `follow`, through the real tokenizer"""
    s = inst_text(n) + follow
    fails = []
    try:
        toks = w.unc_tokens(s)
    except IndexError:
        if follow.strip() == "":
            return [(f"eof:IndexError:{n['style']}", f"uncertainty_tokenizer({s!r}) raises IndexError: the notation is the last thing in the input")]
        return [(f"tok-error:IndexError:{n['style']}", f"uncertainty_tokenizer({s!r}) raises IndexError")]
    except Exception as e:
        return [(f"tok-error:{type(e).__name__}:{n['style']}", f"uncertainty_tokenizer({s!r}) raises {type(e).__name__}")]
    texts = [t.string for t in toks]
    if "+/-" not in texts:
        return [(f"tok-notation-missed:{n['style']}", f"{s!r}: no +/- token produced: {texts}")]
    i = texts.index("+/-")
    ev, eu = inst_expected_texts(n)
    if n["style"] == "paren":
        if texts[i - 1] != ev or texts[i + 1] != eu:
            fails.append((f"tok-notation:paren:{'exp' if n['exp'] else 'noexp'}",
                          f"{s!r}: tokens around +/- are {texts[i - 1]!r}, {texts[i + 1]!r}; expected {ev!r}, {eu!r}"))
        if n["minus"] and (i < 2 or texts[i - 2] != "-"):
            fails.append(("tok-notation:paren:minus", f"{s!r}: leading minus lost: {texts}"))
    else:
        if texts[i - 1] != ev:
            fails.append((f"tok-notation:short:nominal", f"{s!r}: nominal token {texts[i - 1]!r}, expected {ev!r}"))
        # the value of the uncertainty token is judged at parse level (oracle_parse)
    return fails


def classify_short_scale(n, got_std):
    """is a wrong std the known `0.`-prefix reading (u / 10^len(u))?"""
    if n["style"] != "short" or "." in n["u"] or got_std is None:
        return False
    p10 = F(10) ** exp_value(n["exp"])
    return close(got_std, F(int(n["u"])) / F(10) ** len(n["u"]) * p10)


def oracle_parse(w, n, follow, units_expected):
    """ureg.parse_expression(notation + follow) is the measurement the notation denotes"""
    s = inst_text(n) + follow
    try:
        r = w.ureg.parse_expression(s)
    except IndexError:
        if follow.strip() == "":
            return [(f"eof:IndexError:{n['style']}", f"ureg({s!r}) raises IndexError: the notation is the last thing in the input")]
        return [(f"parse-error:IndexError:{n['style']}", f"ureg({s!r}) raises IndexError")]
    except Exception as e:
        return [(f"parse-error:{type(e).__name__}:{n['style']}", f"ureg({s!r}) raises {type(e).__name__}: {e}")]
    mag = getattr(r, "magnitude", r)
    if not hasattr(mag, "nominal_value"):
        return [(f"parse-not-uncertain:{n['style']}", f"ureg({s!r}) = {r!r} carries no uncertainty")]
    ev, eu = inst_expected(n)
    fails = []
    gv, gu = fr(mag.nominal_value), fr(mag.std_dev)
    if (ev is None) != (gv is None) or (ev is not None and not close(gv, ev, scale=abs(ev))):
        fails.append((f"parse-value:{n['style']}:nominal", f"ureg({s!r}) nominal {mag.nominal_value!r}, expected {float(ev) if ev is not None else 'nan'}"))
    if (eu is None) != (gu is None) or (eu is not None and not close(gu, eu, scale=abs(eu))):
        if classify_short_scale(n, gu):
            nd = len(n["v"].partition(".")[2])
            fails.append((f"parse-value:short:std-prefix0:decimals={nd},digits={len(n['u'])}",
                          f"ureg({s!r}) std_dev {mag.std_dev!r}, expected {float(eu)!r}: the integer uncertainty ({n['u']}) is read as "
                          f"0.{n['u']} although the nominal value has {nd} decimal(s) ({len(n['u'])} digit(s) given)"))
        else:
            fails.append((f"parse-value:{n['style']}:std", f"ureg({s!r}) std_dev {mag.std_dev!r}, expected {float(eu) if eu is not None else 'nan'}"))
    if units_expected is not None and hasattr(r, "units"):
        if ucd(r._units) != units_expected:
            fails.append((f"parse-units:{n['style']}", f"ureg({s!r}) units {dict(r._units)}, expected {units_expected}"))
    return fails


def oracle_additive(w, a_text, op, b_text):
    """parse(A op B) == parse(A) op parse(B) for a notation A immediately followed by more input"""
    s = a_text + op + b_text
    try:
        whole = w.ureg.parse_expression(s)
        pa, pb = w.ureg.parse_expression(a_text), w.ureg.parse_expression(b_text)
        want = pa + pb if op.strip() == "+" else pa - pb
    except Exception as e:
        return [(f"continuation-error:{type(e).__name__}", f"{s!r}: {type(e).__name__}: {e}")]
    try:
        wm, gm = want.to(whole.units).magnitude, whole.magnitude
        ok = math.isclose(gm.nominal_value, wm.nominal_value, rel_tol=1e-9) and math.isclose(gm.std_dev, wm.std_dev, rel_tol=1e-9)
    except Exception:
        ok = False
    if ok:
        return []
    unit = a_text.rpartition(")")[2]
    if unit[:1] in ("e", "E"):
        return [(f"continuation:e-lookahead-swallows:{unit[:1]}:{op.strip()}",
                 f"ureg({s!r}) = {whole!r} but ureg({a_text!r}) {op.strip()} ureg({b_text!r}) = {want!r}: the unit name starting with e/E, "
                 f"the sign and the following number were taken for an exponent")]
    return [(f"continuation-mismatch:{op.strip()}", f"ureg({s!r}) = {whole!r} but the parts give {want!r}")]


def build_ctor(w, c):
    """c: JSON-able constructor plan -> the measurement (may raise)"""
    Q, M = w.Q, w.M
    from uncertainties import ufloat
    v = float(F(c["v"]))

    def err():
        e = c["e"]
        if "u" in e:
            return Q(float(F(e["x"])), e["u"])
        return float(F(e["x"]))
    k = c["form"]
    if k == "qty":
        return M(Q(v, c["vu"]), err())
    if k == "nums":
        return M(v, err(), c["vu"])
    if k == "bare":
        return M(v, err())
    if k == "ufloat":
        return M(ufloat(v, float(F(c["e"]["x"]))), c["vu"])
    if k == "qtyu":
        return M(Q(ufloat(v, float(F(c["e"]["x"]))), c["vu"]))
    if k == "pm":
        return Q(v, c["vu"]).plus_minus(err(), relative=c["rel"])
    raise KeyError(k)


def coq_ctor(w, c):
    def units(name):
        return coq_uc(ucd(w.ureg.Unit(name)._units)) if name else "∅"

    def err():
        e = c["e"]
        if "u" in e:
            return f"(EQty {coq_q(F(e['x']))} {units(e['u'])})"
        return f"(ENum {coq_q(F(e['x']))})"
    v, k = coq_q(F(c["v"])), c["form"]
    if k == "qty":
        return f"(CQty {v} {units(c['vu'])} {err()})"
    if k == "nums":
        return f"(CNums {v} {err()} {units(c['vu'])})"
    if k == "bare":
        return f"(CBare {v} {err()})"
    if k == "ufloat":
        return f"(CUfloat {v} {coq_q(F(c['e']['x']))} {units(c['vu'])})"
    if k == "qtyu":
        return f"(CQtyU {v} {coq_q(F(c['e']['x']))} {units(c['vu'])})"
    return f"(CPlusMinus {v} {units(c['vu'])} {err()} {coq_bool(c['rel'])})"


def exact_unit(w, name):
    """the root factor of the unit is exact in the Fraction registry (29 units are defined through
    square roots and have float factors there)"""
    cont = w.ur.Unit(name or "dimensionless")._units
    f, _ = w.ur._get_root_units(cont, check_nonmult=False)
    return isinstance(f, (int, F)) and not isinstance(f, bool)


def slope_offset(w, src, dst):
    """exact (a, b) of the conversion x -> a·x + b, from the Fraction registry; None when the
    registry itself computes in floats (irrational definitions)"""
    if not (exact_unit(w, src) and exact_unit(w, dst)):
        return None
    b = w.ur.convert(F(0), src, dst)
    a1 = w.ur.convert(F(1), src, dst)
    if not all(isinstance(x, (int, F)) for x in (b, a1)):
        return None
    return F(a1) - F(b), F(b)


def oracle_ctor(w, c):
    """value / error / rel report the inputs back; negative errors are refused; the error given
    as a Quantity in another unit is the same uncertainty (scaled by the slope)"""
    fails = []
    v = F(c["v"])
    e = c["e"]
    ex = F(e["x"])
    vu = c.get("vu", "")
    form = c["form"]
    # the uncertainty the caller means, in the value's units
    want = None
    off_shift = False
    if "u" in e:
        try:
            so = slope_offset(w, e["u"], vu or "dimensionless")
        except Exception:
            so = None
        if so is None:
            return []
        want = abs(so[0]) * ex
        off_shift = so[1] != 0
    elif c.get("rel"):
        want = ex * abs(v)
    else:
        want = ex
    try:
        m = build_ctor(w, c)
    except Exception as exn:
        cls = ecls(exn)
        if want < 0:
            # pint's own forms must refuse with ValueError; the two ufloat forms are refused by uncertainties
            good = "XNegStd" if form in ("ufloat", "qtyu") else "XValue"
            if cls != good:
                fails.append((f"ctor-negative:{form}:{type(exn).__name__}", f"{c}: negative error raises {type(exn).__name__}, not ValueError"))
            return fails
        if c.get("rel") and "u" in e and cls == "XValue":
            return fails        # documented: a Quantity is not a valid relative error
        if off_shift and cls == "XValue":
            return [(f"ctor-offset-error:{unit_key(w, vu)},{unit_key(w, e['u'])}:rejected",
                     f"{c}: a non-negative error given in {e['u']} is converted like an absolute temperature "
                     f"(error.to(units)) and then refused as negative")]
        return [(f"ctor-error:{form}:{type(exn).__name__}", f"{c}: {type(exn).__name__}: {exn}")]
    if want < 0:
        if off_shift:
            return [(f"ctor-offset-error:{unit_key(w, vu)},{unit_key(w, e['u'])}:shifted",
                     f"{c}: negative error accepted: error.to(units) shifted it by the unit offset to {m.error}")]
        return [(f"ctor-negative:{form}:accepted", f"{c}: negative error accepted: {m!r}")]
    nomv, std = fr(m.value.magnitude), fr(m.error.magnitude)
    if not close(nomv, v, scale=abs(v)):
        fails.append((f"ctor-value:{form}", f"{c}: value {m.value!r} does not report {float(v)!r} back"))
    if not close(std, want, scale=abs(want)):
        if off_shift:
            fails.append((f"ctor-offset-error:{unit_key(w, vu)},{unit_key(w, e['u'])}:shifted",
                          f"{c}: error {m.error!r}: the error Quantity was converted like an absolute temperature "
                          f"(offset added), not scaled by the slope (expected {float(want)!r})"))
        else:
            fails.append((f"ctor-error-value:{form}", f"{c}: error {m.error!r} does not report {float(want)!r} back"))
    elif v != 0:
        try:
            if not close(fr(m.rel), abs(want / v), rt=1e-11):
                fails.append((f"ctor-rel:{form}", f"{c}: rel {m.rel!r}, expected {float(abs(want / v))!r}"))
        except ZeroDivisionError:
            pass
    if ucd(m._units) != ucd(w.ureg.Unit(vu or "dimensionless")._units):
        fails.append((f"ctor-units:{form}", f"{c}: units {m.units}"))
    return fails


def unit_key(w, name):
    try:
        d = dict(w.ureg.Unit(name or "dimensionless")._units)
        return "*".join(sorted(d)) or "dimensionless"
    except Exception:
        return str(name)


def oracle_convert(w, v, s, src, dst):
    """m.to(dst): nominal value like the plain quantity, std_dev scaled by the slope, rel
    invariant under multiplicative conversion"""
    fails = []
    m = w.M(v, s, src)
    q = w.Q(v, src)
    try:
        q2 = q.to(dst)
    except Exception as e:
        try:
            m.to(dst)
        except type(e):
            return []
        except Exception as e2:
            return [(f"convert-error-class:{src},{dst}", f"Measurement.to raises {type(e2).__name__}, Quantity.to {type(e).__name__}")]
        return [(f"convert-accepts:{src},{dst}", f"Measurement({v},{s},{src}).to({dst}) succeeds while Quantity.to raises {type(e).__name__}")]
    try:
        m2 = m.to(dst)
    except Exception as e:
        return [(f"convert-refuses:{src},{dst}", f"Measurement({v},{s},{src}).to({dst}) raises {type(e).__name__}: {e}")]
    so = slope_offset(w, src, dst)
    nv, sd = m2.magnitude.nominal_value, m2.magnitude.std_dev
    scale = abs(v) * float(abs(so[0])) + float(abs(so[1])) if so else abs(q2.magnitude)
    if abs(nv - q2.magnitude) > 1e-12 * scale:
        fails.append((f"convert-nominal:{src},{dst}", f"M({v},{s},{src}).to({dst}) nominal {nv!r}, plain quantity gives {q2.magnitude!r}"))
    if so is not None:
        if not close(F(sd), abs(so[0]) * F(s), scale=abs(so[0]) * F(s)):
            key = "offset-added" if so[1] != 0 and close(F(sd), abs(so[0]) * F(s) + so[1], rt=1e-9, scale=abs(so[1]) + F(s)) else "slope"
            fails.append((f"convert-std:{key}:{src},{dst}", f"M({v},{s},{src}).to({dst}) std_dev {sd!r}, expected |slope|·σ = {float(abs(so[0]) * F(s))!r}"))
        mult = all(w.ureg._units[k].is_multiplicative for u_ in (src, dst) for k in w.ureg.Unit(u_)._units)
        if mult and so[0] != 0 and v != 0:
            if not math.isclose(m2.rel, m.rel, rel_tol=1e-11):
                fails.append((f"convert-rel:{src},{dst}", f"rel changed under multiplicative conversion: {m.rel!r} -> {m2.rel!r}"))
    if ucd(m2._units) != ucd(q2._units):
        fails.append((f"convert-units:{src},{dst}", f"units {m2.units} vs {q2.units}"))
    return fails


def oracle_unit_rules(w, op, a, b):
    """Measurement op Measurement and Quantity(ufloat) op Quantity(ufloat) follow the unit rules
    of plain quantities: same resulting units or same error class.  a, b = (value, sigma, unit)"""
    import operator
    from uncertainties import ufloat
    f = {"add": operator.add, "sub": operator.sub, "mul": operator.mul, "div": operator.truediv}[op]

    def outcome(x, y):
        try:
            r = f(x, y)
            return ("ok", ucd(r._units), r)
        except Exception as e:
            return ("err", type(e).__name__, None)
    plain = outcome(w.Q(a[0], a[2]), w.Q(b[0], b[2]))
    fails = []
    for cls, x, y in (("Measurement", w.M(*a), w.M(*b)),
                      ("Quantity-ufloat", w.Q(ufloat(a[0], a[1]), a[2]), w.Q(ufloat(b[0], b[1]), b[2]))):
        got = outcome(x, y)
        if got[:2] != plain[:2]:
            nonmult = any(not w.ureg._units[k].is_multiplicative
                          for u in (a[2], b[2]) for k in w.ureg.Unit(u or "dimensionless")._units)
            tag = "offset-units" if nonmult else "multiplicative"
            fails.append((f"unit-rules:{cls}:{tag}:{op}",
                          f"{cls}: ({a}) {op} ({b}) gives {got[1]} while plain quantities give {plain[1]}"))
        elif got[0] == "ok":
            n = got[2].magnitude.nominal_value if hasattr(got[2].magnitude, "nominal_value") else got[2].magnitude
            if not math.isclose(n, plain[2].magnitude, rel_tol=1e-12, abs_tol=1e-300):
                fails.append((f"unit-rules:{cls}:nominal:{op}", f"{cls}: nominal {n!r} vs plain {plain[2].magnitude!r}"))
    return fails


PLAIN_SPECS = ["", "D", "C", "S", ".1uS", ".2uS", ".3f", ".2e", "e", "g", "~", "~D", ".1u"]
OTHER_SPECS = ["P", "~P", "L", "H", "Lx", "PS", "LS", "HS"]


def oracle_format(w, v, s, unit, spec):
    """format(m, spec) parses back to m when the format is plain (m chosen so that the rendered
    digits lose nothing); every spec renders without raising"""
    m = w.M(float(F(v)), float(F(s)), unit)
    try:
        text = format(m, spec)
    except Exception as e:
        return [(f"format-error:{spec}:{type(e).__name__}", f"format(M({v},{s},{unit!r}), {spec!r}) raises {type(e).__name__}: {e}")], None
    if spec not in PLAIN_SPECS:
        return [], text
    # is the rendering lossless?  referee: uncertainties' own format -> ufloat_fromstr round trip
    from uncertainties import ufloat_fromstr
    uspec = spec.replace("~", "").replace("D", "").replace("C", "")
    try:
        back = ufloat_fromstr(format(m.magnitude, uspec))
        lossless = close(F(back.nominal_value), F(v), rt=1e-9, scale=abs(F(v)) + F(s)) and close(F(back.std_dev), F(s), rt=1e-9)
    except Exception:
        lossless = False
    if not lossless:
        return [], None
    try:
        r = w.ureg.parse_expression(text)
    except (w.pint.errors.OffsetUnitCalculusError, w.pint.errors.UndefinedUnitError) as e:
        # the same unit rules as plain quantities: `ureg("5 degC")` is refused as well
        try:
            w.ureg.parse_expression(format(w.Q(float(F(v)), unit), spec.replace("S", "").replace("u", "").replace(".1", "").replace(".2", "")))
        except type(e):
            return [], None
        except Exception:
            pass
        return [(f"roundtrip-error:{spec}:{type(e).__name__}", f"ureg({text!r}) raises {type(e).__name__}: {e}")], text
    except IndexError:
        return [(f"eof:IndexError:roundtrip", f"ureg({text!r}) (= format(M({v},{s},{unit!r}), {spec!r})) raises IndexError: the notation ends the input")], text
    except Exception as e:
        return [(f"roundtrip-error:{spec}:{type(e).__name__}", f"ureg({text!r}) raises {type(e).__name__}: {e}")], text
    mag = getattr(r, "magnitude", r)
    fails = []
    if not hasattr(mag, "nominal_value"):
        return [(f"roundtrip-not-uncertain:{spec}", f"ureg({text!r}) = {r!r}")], text
    if not close(F(mag.nominal_value), F(v), rt=1e-9, scale=abs(F(v)) + F(s)):
        fails.append((f"roundtrip-nominal:{spec}", f"ureg({text!r}) nominal {mag.nominal_value!r}, measurement had {float(F(v))!r}"))
    if not close(F(mag.std_dev), F(s), rt=1e-9):
        import re
        mt = re.search(r"(\d*\.?\d*)\((\d+)\)(?:e([+-]?\d+))?", text) if "+/-" not in text else None
        kind = "pm"
        if mt:
            kind = "short"
            if close(F(mag.std_dev), F(int(mt.group(2))) / F(10) ** len(mt.group(2)) * F(10) ** int(mt.group(3) or 0), rt=1e-9):
                kind = f"short-prefix0:decimals={len(mt.group(1).partition('.')[2])},digits={len(mt.group(2))}"
        fails.append((f"roundtrip-std:{kind}:{spec}", f"ureg({text!r}) std_dev {mag.std_dev!r}, measurement had {float(F(s))!r}"))
    units = ucd(r._units) if hasattr(r, "_units") else {}
    if units != ucd(m._units):
        fails.append((f"roundtrip-units:{spec}", f"ureg({text!r}) units {units}"))
    return fails, text


# ---------------------------------------------------------------------------- expressions
LEN = ["meter", "centimeter", "kilometer", "inch", "foot", "mile", "millimeter"]
TIME = ["second", "millisecond", "hour", "minute"]
MASS = ["kilogram", "gram", "pound"]
FAMILIES = [LEN, TIME, MASS]


def gen_expr(rng, vars_, depth, positive=False, allow_pow=False):
    """random expression tree as nested tuples; `positive`: usable as a divisor (no subtraction,
    positive leaves) so that the float computation is well conditioned and never divides by an
    exact zero"""
    r = rng.random()
    if depth <= 0 or r < 0.25:
        if rng.random() < 0.8 or not vars_:
            return ("var", rng.choice(sorted(vars_)))
        fam = rng.choice(FAMILIES)
        mant = rng.randint(1, 999)
        if not positive and rng.random() < 0.3:
            mant = -mant
        return ("qty", str(F(mant, rng.choice([1, 10, 100]))), rng.choice(fam))
    ops = ["add", "mul", "div", "scale", "to"] + ([] if positive else ["sub", "sub"]) + (["pow"] if allow_pow else [])
    op = rng.choice(ops)
    if op in ("add", "sub"):
        a = gen_expr(rng, vars_, depth - 1, positive, allow_pow)
        b = gen_expr(rng, vars_, depth - 1, positive, allow_pow)
        return (op, a, b)
    if op == "mul":
        return ("mul", gen_expr(rng, vars_, depth - 1, positive, allow_pow), gen_expr(rng, vars_, depth - 1, positive, allow_pow))
    if op == "div":
        return ("div", gen_expr(rng, vars_, depth - 1, positive, allow_pow), gen_expr(rng, vars_, depth - 1, True, allow_pow))
    if op == "scale":
        c = F(rng.randint(1, 50), rng.choice([1, 2, 4, 10]))
        if not positive and rng.random() < 0.3:
            c = -c
        return ("scale", str(c), gen_expr(rng, vars_, depth - 1, positive, allow_pow))
    if op == "pow":
        return ("pow", gen_expr(rng, vars_, depth - 1, positive, allow_pow), rng.choice([2, 2, 3]))
    return ("to", gen_expr(rng, vars_, depth - 1, positive, allow_pow), None)


class Skip(Exception):
    pass


def run_expr(w, e, objs, rng):
    """evaluate on pint; fills the target unit of 'to' nodes with a compatible unit; returns
    (pint object, coq term)"""
    k = e[0]
    if k == "var":
        return objs[e[1]], f"(XVar {e[1]})"
    if k == "qty":
        return w.Q(float(F(e[1])), e[2]), f"(XQty {coq_q(F(e[1]))} {coq_uc({e[2]: F(1)})})"
    if k == "scale":
        a, ta = run_expr(w, e[2], objs, rng)
        return float(F(e[1])) * a, f"(XScale {coq_q(F(e[1]))} {ta})"
    if k == "to":
        a, ta = run_expr(w, e[1], objs, rng)
        # re-express every unit of the operand in another unit of its family
        d = ucd(a._units)
        nd = {}
        for name, ex in d.items():
            fam = next((f for f in FAMILIES if name in f), None)
            new = rng.choice(fam) if fam else name
            nd[new] = nd.get(new, 0) + ex
        nd = {k_: v_ for k_, v_ in nd.items() if v_ != 0}
        if len(nd) != len(d):
            raise Skip()
        dst = w.ureg.UnitsContainer({k_: (int(v_) if v_.denominator == 1 else float(v_)) for k_, v_ in nd.items()})
        return a.to(dst), f"(XTo {ta} {coq_uc(nd)})"
    a, ta = run_expr(w, e[1], objs, rng)
    b, tb = run_expr(w, e[2], objs, rng)
    if k == "add":
        return a + b, f"(XAdd {ta} {tb})"
    if k == "sub":
        return a - b, f"(XSub {ta} {tb})"
    if k == "mul":
        return a * b, f"(XMul {ta} {tb})"
    return a / b, f"(XDiv {ta} {tb})"



# ---------------------------------------------------------------------------- derived measurements keep their correlations
# A measurement that is the RESULT of an operation (+ - * / ** scalar multiple, .to()) is the same
# uncertain number as the expression it was computed from: combined again with one of its ancestors
# the correlations must show (m - m.to('cm') = 0 ± 0, 3*m - m = 2v ± 2σ, (m*t)/m has t's error only).
# The oracle evaluates one expression tree (shared variables, conversions filled in) three ways:
#   * on Measurement objects (variables built by every constructor form),
#   * on Quantity objects holding THE SAME ufloats,
#   * on bare ufloats with the exact conversion slopes (reference: `uncertainties` alone),
# and compares nominal value, std_dev and units; the Measurement result minus the Quantity result
# must have no uncertainty at all.
TEMPS = ["kelvin", "degree_Celsius", "degree_Fahrenheit", "degree_Rankine"]


def fam_of(name):
    for i, f in enumerate(FAMILIES):
        if name in f:
            return i
    return "T" if name in TEMPS else None


def expr_units(fe, V):
    """units of a filled expression by pint's rules for multiplicative units ({name: Fraction})"""
    k = fe[0]
    if k == "var":
        return {V[fe[1]][2]: F(1)}
    if k == "qty":
        return {fe[2]: F(1)}
    if k == "scale":
        return expr_units(fe[2], V)
    if k == "to":
        return {n: F(x) for n, x in fe[2].items()}
    if k == "pow":
        return {n: x * fe[2] for n, x in expr_units(fe[1], V).items()}
    a, b = expr_units(fe[1], V), expr_units(fe[2], V)
    if k in ("add", "sub"):
        return a
    out = dict(a)
    for n, x in b.items():
        out[n] = out.get(n, 0) + (x if k == "mul" else -x)
    return {n: x for n, x in out.items() if x != 0}


def dims_of(units):
    d = {}
    for n, x in units.items():
        f = fam_of(n)
        d[f] = d.get(f, 0) + x
    return {f: x for f, x in d.items() if x != 0}


def fill_expr(e, V, rng):
    """choose the target of every 'to' node (another unit of the same family per factor); refuse
    dimensionally invalid sums"""
    k = e[0]
    if k in ("var", "qty"):
        return e
    if k == "scale":
        return ("scale", e[1], fill_expr(e[2], V, rng))
    if k == "pow":
        return ("pow", fill_expr(e[1], V, rng), e[2])
    if k == "to":
        a = fill_expr(e[1], V, rng)
        if e[2] is not None:
            return ("to", a, e[2])
        nd = {}
        for name, ex in expr_units(a, V).items():
            f = fam_of(name)
            new = rng.choice(FAMILIES[f]) if isinstance(f, int) else name
            nd[new] = nd.get(new, 0) + ex
        nd = {n: x for n, x in nd.items() if x != 0}
        if len(nd) != len(expr_units(a, V)):
            raise Skip()
        return ("to", a, {n: str(x) for n, x in nd.items()})
    a, b = fill_expr(e[1], V, rng), fill_expr(e[2], V, rng)
    if k in ("add", "sub") and dims_of(expr_units(a, V)) != dims_of(expr_units(b, V)):
        raise Skip()
    return (k, a, b)


def eval_objs(w, fe, objs):
    """a filled expression on pint objects"""
    k = fe[0]
    if k == "var":
        return objs[fe[1]]
    if k == "qty":
        return w.Q(float(F(fe[1])), fe[2])
    if k == "scale":
        return float(F(fe[1])) * eval_objs(w, fe[2], objs)
    if k == "pow":
        return eval_objs(w, fe[1], objs) ** fe[2]
    if k == "to":
        dst = w.ureg.UnitsContainer({n: (int(F(x)) if F(x).denominator == 1 else float(F(x))) for n, x in fe[2].items()})
        return eval_objs(w, fe[1], objs).to(dst)
    a, b = eval_objs(w, fe[1], objs), eval_objs(w, fe[2], objs)
    return a + b if k == "add" else a - b if k == "sub" else a * b if k == "mul" else a / b


def unit_affine(w, src, dst):
    """exact (a, b) of the conversion between two unit dicts, from the Fraction registry"""
    if src == dst:
        return F(1), F(0)
    mk = lambda d: w.ur.UnitsContainer({n: (int(x) if F(x).denominator == 1 else F(x)) for n, x in d.items()})
    cs, cd = mk(src), mk(dst)
    b = w.ur.convert(F(0), cs, cd)
    a1 = w.ur.convert(F(1), cs, cd)
    return F(a1) - F(b), F(b)


def eval_ref(w, fe, atoms, V, companion=False):
    """the reference: the same expression on bare ufloats (`uncertainties` alone) with the exact
    conversion slopes.  companion=True evaluates the magnitude bound: absolute values, every
    subtraction an addition, x/y as x·y/y0² — the std_dev of the result bounds the size of the
    derivative terms, so tolerances are relative to what the float computation carried"""
    k = fe[0]
    if k == "var":
        return atoms[fe[1]]
    if k == "qty":
        x = float(F(fe[1]))
        return abs(x) if companion else x
    if k == "scale":
        c = float(F(fe[1]))
        return (abs(c) if companion else c) * eval_ref(w, fe[2], atoms, V, companion)
    if k == "pow":
        return eval_ref(w, fe[1], atoms, V, companion) ** fe[2]
    if k == "to":
        a, b = unit_affine(w, expr_units(fe[1], V), {n: F(x) for n, x in fe[2].items()})
        x = eval_ref(w, fe[1], atoms, V, companion)
        return abs(float(a)) * x + abs(float(b)) if companion else float(a) * x + float(b)
    x, y = eval_ref(w, fe[1], atoms, V, companion), eval_ref(w, fe[2], atoms, V, companion)
    if k in ("add", "sub"):
        a, b = unit_affine(w, expr_units(fe[2], V), expr_units(fe[1], V))
        if companion:
            return x + (abs(float(a)) * y + abs(float(b)))
        y2 = y if (a, b) == (1, 0) else float(a) * y + float(b)
        return x + y2 if k == "add" else x - y2
    if k == "mul":
        return x * y
    if companion:
        y0 = getattr(y, "nominal_value", y)
        return x * y / (y0 * y0)
    return x / y


def nom_std(x):
    m = getattr(x, "magnitude", x)
    if hasattr(m, "nominal_value"):
        return float(m.nominal_value), float(m.std_dev)
    return float(m), 0.0


CTOR_FORMS = ["nums", "pm", "ufloat", "qtyu"]


def oracle_derived(w, plan):
    """plan: {"vars": {i: [value text, sigma text, unit, constructor form]}, "expr": filled tree}"""
    from uncertainties import ufloat
    V = {int(i): (None, None, x[2]) for i, x in plan["vars"].items()}
    fe = untuple(plan["expr"])
    ms, qs, atoms, comp = {}, {}, {}, {}
    for i, (vt, st, u, form) in ((int(i), x) for i, x in plan["vars"].items()):
        v, s_ = float(vt), float(st)
        if form == "nums":
            ms[i] = w.M(v, s_, u)
        elif form == "pm":
            ms[i] = w.Q(v, u).plus_minus(s_)
        elif form == "ufloat":
            ms[i] = w.M(ufloat(v, s_), u)
        else:
            ms[i] = w.M(w.Q(ufloat(v, s_), u))
        qs[i] = w.Q(ms[i].magnitude, u)          # the same uncertain number, Quantity class
        atoms[i] = ufloat(v, s_)
        comp[i] = ufloat(abs(v), s_)
    try:
        rm = eval_objs(w, fe, ms)
    except Exception as e:
        try:
            eval_objs(w, fe, qs)
        except type(e):
            return []
        except Exception:
            pass
        return [(f"derived:error:{type(e).__name__}", f"{plan}: the Measurement expression raises {type(e).__name__}: {e}")]
    rq = eval_objs(w, fe, qs)
    ref = eval_ref(w, fe, atoms, V)
    bound = eval_ref(w, fe, comp, V, companion=True)
    bn, bs = nom_std(bound)
    tn, ts_ = 1e-9 * abs(bn), 1e-9 * bs
    n_m, s_m = nom_std(rm)
    n_q, s_q = nom_std(rq)
    n_r, s_r = nom_std(ref)
    fails = []
    shape = expr_shape(fe)
    want_units = expr_units(fe, V)
    if ucd(rm._units) != want_units:
        fails.append((f"derived:units:{shape}", f"{plan}: units {dict(rm._units)}, expected {want_units}"))
    if abs(n_m - n_r) > tn:
        fails.append((f"derived:nominal:{shape}", f"{plan}: Measurement result {n_m!r} ± {s_m!r}; first-order propagation on the bare ufloats gives {n_r!r} ± {s_r!r}"))
    if abs(s_m - s_r) > ts_:
        fails.append((f"derived:std:{shape}",
                      f"{plan}: Measurement result {n_m!r} ± {s_m!r}; first-order propagation on the bare ufloats gives "
                      f"{n_r!r} ± {s_r!r} (Quantity holding the same ufloats: {n_q!r} ± {s_q!r}) — a derived measurement "
                      f"lost its correlation with the operands it was computed from"))
    if abs(s_q - s_r) > ts_ or abs(n_q - n_r) > tn:
        fails.append((f"derived:quantity-ufloat:{shape}", f"{plan}: Quantity(ufloat) result {n_q!r} ± {s_q!r}; reference {n_r!r} ± {s_r!r}"))
    try:
        d = rm - rq
        n_d, s_d = nom_std(d)
        if abs(s_d) > ts_ or abs(n_d) > tn:
            fails.append((f"derived:identity:{shape}",
                          f"{plan}: the Measurement result minus the Quantity(ufloat) result of the SAME expression over the same "
                          f"ufloats is {n_d!r} ± {s_d!r}, not 0 ± 0: the result is no longer the same uncertain number"))
    except Exception as e:
        fails.append((f"derived:identity-error:{type(e).__name__}", f"{plan}: {e}"))
    return fails


def oracle_ufloat_identity(w, plan):
    """Measurement(u, unit) for a ufloat u is u itself with units: it is fully correlated with u"""
    from uncertainties import ufloat
    x = ufloat(float(plan["v"]), float(plan["s"]))
    m = w.M(x, plan["unit"])
    fails = []
    d = m.magnitude - x
    tol = 1e-9 * float(plan["s"])
    if abs(d.std_dev) > tol or abs(d.nominal_value) > 1e-9 * abs(float(plan["v"])):
        fails.append(("ufloat-identity:magnitude", f"Measurement(u, {plan['unit']!r}).magnitude - u = {d!r} for u = ufloat({plan['v']}, {plan['s']}): not 0 ± 0"))
    try:
        if plan["unit"] not in ("degC",):
            dq = m - w.Q(x, plan["unit"])
            n_d, s_d = nom_std(dq)
            if abs(s_d) > tol:
                fails.append(("ufloat-identity:quantity", f"Measurement(u, {plan['unit']!r}) - Quantity(u, {plan['unit']!r}) = {dq!r}: not 0 ± 0"))
    except Exception as e:
        fails.append((f"ufloat-identity:error:{type(e).__name__}", f"{plan}: {e}"))
    return fails


def untuple(e):
    if isinstance(e, (list, tuple)):
        return tuple(untuple(x) for x in e)
    return e


def expr_shape(fe):
    """coarse shape for the violation key: which operations a derived value goes through"""
    ops = set()

    def walk(x):
        if isinstance(x, tuple) and x and isinstance(x[0], str):
            if x[0] not in ("var", "qty"):
                ops.add(x[0])
            for y in x[1:]:
                walk(y)
    walk(fe)
    return "+".join(sorted(ops)) or "leaf"


def derived_templates(u_len, u_len2, u_time):
    """the multi-step histories in which a derived measurement meets its own ancestor (vars: 1 a
    length, 2 a time, 3 a temperature in kelvin)"""
    m, t, k = ("var", 1), ("var", 2), ("var", 3)
    return [
        ("sub", m, ("to", m, {u_len2: "1"})),
        ("sub", ("scale", "3", m), m),
        ("add", ("add", m, m), m),
        ("div", ("mul", m, t), m),
        ("mul", ("div", m, t), t),
        ("div", ("pow", m, 2), m),
        ("sub", ("to", ("to", m, {u_len2: "1"}), {u_len: "1"}), m),
        ("sub", k, ("to", ("to", k, {"degree_Celsius": "1"}), {"kelvin": "1"})),
        ("sub", ("to", ("to", k, {"degree_Fahrenheit": "1"}), {"kelvin": "1"}), k),
        ("div", ("to", ("mul", m, m), {u_len2: "2"}), m),
    ]



# ---------------------------------------------------------------------------- bare (unit-less) operands
# Plain-quantity rule: a bare number may be added to, subtracted from, ordered against or found equal
# to a quantity that has a dimension only if it is exactly zero (or NaN).  An uncertain number
# 0 ± s with s > 0 is NOT zero.  The oracle runs `q op b` and `b op q` for a bare ufloat b against a
# plain Quantity, a Quantity holding a ufloat and a Measurement, and demands the outcome (error
# class / units / value) of the plain quantity with a plain float of the same zero-ness.
BARE_OPS = ["add", "sub", "lt", "le", "gt", "ge", "eq"]


def oracle_bare(w, plan):
    import operator
    from uncertainties import ufloat
    kind, v, sq, unit = plan["q"]
    n, sb = plan["bare"]
    op = getattr(operator, plan["op"])
    swap = plan["swap"]
    n = float(n)
    bare = n if sb is None else ufloat(n, float(sb))
    isnan = math.isnan(n)
    exact_zero = n == 0 and (sb is None or float(sb) == 0)
    ref = n if (isnan or exact_zero or n != 0) else float(sb)       # a plain float with the same zero-ness
    v, sq = float(v), float(sq)
    q = {"Q": lambda: w.Q(v, unit), "QU": lambda: w.Q(ufloat(v, sq), unit), "M": lambda: w.M(v, sq, unit)}[kind]()
    qp = w.Q(v, unit)

    def outcome(a, b):
        try:
            r = op(b, a) if swap else op(a, b)
            return ("ok", r)
        except Exception as e:
            return ("err", type(e).__name__)
    got, want = outcome(q, bare), outcome(qp, ref)
    expr = f"{plan['op']}({'b, q' if swap else 'q, b'}) with q = {kind}({v}, {sq}, {unit!r}), b = " + (repr(n) if sb is None else f"ufloat({n}, {sb})")
    tag = "uzero" if (n == 0 and sb is not None and float(sb) > 0) else "zero" if exact_zero else "nan" if isnan else "nonzero"
    if got[0] != want[0] or (got[0] == "err" and got[1] != want[1]):
        g = f"raises {got[1]}" if got[0] == "err" else f"returns {got[1]!r}"
        x = f"raises {want[1]}" if want[0] == "err" else f"returns {want[1]!r}"
        nonmult = any(not w.ureg._units[k_].is_multiplicative for k_ in w.ureg.Unit(unit or "dimensionless")._units)
        if kind == "M" and nonmult and want == ("err", "OffsetUnitCalculusError") and got[0] == "ok":
            # the Measurement class skips the offset-unit rules altogether (F73)
            return [(f"unit-rules:Measurement:offset-units:{plan['op']}",
                     f"Measurement: {expr} {g} while the plain quantity {x}")]
        return [(f"bare-operand:{tag}:{kind}:{plan['op']}:{'swapped' if swap else 'direct'}",
                 f"{expr} {g}; the plain quantity with the plain number {ref!r} {x}: an uncertain bare number is held to the "
                 f"unit rule of a plain one (only an exact zero or NaN may skip the unit check)")]
    if got[0] == "err":
        return []
    fails = []
    r, rp = got[1], want[1]
    if hasattr(rp, "_units") != hasattr(r, "_units") or (hasattr(r, "_units") and ucd(r._units) != ucd(rp._units)):
        fails.append((f"bare-operand-units:{tag}:{kind}:{plan['op']}", f"{expr} gives {r!r}, plain quantities give {rp!r}"))
    elif ref == n and not isnan:
        if isinstance(rp, (bool,)) or not hasattr(rp, "magnitude"):
            if bool(r) != bool(rp):
                fails.append((f"bare-operand-value:{tag}:{kind}:{plan['op']}", f"{expr} gives {r!r}, plain quantities give {rp!r}"))
        else:
            gn = nom_std(r)[0]
            if not math.isclose(gn, rp.magnitude, rel_tol=1e-12, abs_tol=1e-300):
                fails.append((f"bare-operand-value:{tag}:{kind}:{plan['op']}", f"{expr} gives {r!r}, plain quantities give {rp!r}"))
    return fails



# ---------------------------------------------------------------------------- histories on ONE measurement object
# value / error / rel are functions of the measurement's CURRENT magnitude and units: whatever was
# read before, after an in-place conversion (ito, ito_base_units, ito_root_units, ito_reduced_units)
# they report the converted numbers and units — the same as a fresh measurement converted out of
# place along the same chain — and what they return is not a handle on the measurement's state
# (converting the returned Quantity in place changes nothing).
SEQ_UNITS = {"km": ["m", "inch", "mile", "km"], "m": ["cm", "km", "foot"], "s": ["ms", "hour", "minute"],
             "km/hour": ["m/s", "mile/hour"], "m/s": ["km/hour", "inch/ms"], "degC": ["degF", "kelvin", "degR"],
             "kelvin": ["degC", "degR"], "degF": ["degC", "kelvin"], "kg*m/s**2": ["g*cm/s**2", "lb*foot/minute**2"],
             "m*km": ["m**2", "inch*mile"], "hour/s": ["minute/ms"], "": ["percent"]}


def gen_history(rng, unit):
    ops = []
    cur = unit
    for _ in range(rng.randint(2, 7)):
        r = rng.random()
        if r < 0.4:
            ops.append(["read", rng.choice(["value", "error", "rel", "value+error", "all"])])
        elif r < 0.7:
            fam = SEQ_UNITS.get(cur) or SEQ_UNITS.get(unit) or [unit]
            dst = rng.choice(fam)
            ops.append(["ito", dst])
            if dst in SEQ_UNITS or True:
                cur = dst if dst in SEQ_UNITS else cur
        elif r < 0.82:
            ops.append([rng.choice(["ito_base_units", "ito_root_units", "ito_reduced_units"])])
        elif r < 0.95:
            ops.append(["mutate-returned", rng.choice(["value", "error"]), rng.choice(SEQ_UNITS.get(unit) or [unit])])
        else:
            ops.append(["ito", rng.choice(["s", "m", "kelvin"])])      # mostly a wrong dimension: refused, nothing changes
    return ops


def apply_history_op(w, m, op):
    """one op on the object m (in place); returns ('ok', None) or ('err', class name)"""
    try:
        if op[0] == "read":
            for what in {"value": ["value"], "error": ["error"], "rel": ["rel"], "value+error": ["value", "error"],
                         "all": ["value", "error", "rel"]}[op[1]]:
                try:
                    getattr(m, what)
                except ZeroDivisionError:
                    pass
        elif op[0] == "ito":
            m.ito(op[1])
        elif op[0] in ("ito_base_units", "ito_root_units", "ito_reduced_units"):
            getattr(m, op[0])()
        elif op[0] == "mutate-returned":
            getattr(m, op[1]).ito(op[2])
        return ("ok", None)
    except Exception as e:
        return ("err", type(e).__name__)


def oracle_history(w, plan, collect=None):
    """plan: {"v","s","unit","form","ops"}.  After every op: value / error / rel against the
    object's own magnitude and units, and against a fresh measurement converted out of place."""
    from uncertainties import ufloat
    v, s_ = float(plan["v"]), float(plan["s"])
    unit = plan["unit"]

    def build():
        if plan["form"] == "nums":
            return w.M(v, s_, unit)
        if plan["form"] == "pm":
            return w.Q(v, unit).plus_minus(s_)
        return w.M(ufloat(v, s_), unit)
    m = build()
    twin = build()        # never read, converted out of place (new objects) along the same chain
    fails = []
    done = []
    for op in plan["ops"]:
        res = apply_history_op(w, m, op)
        done.append(op)
        if op[0] == "ito":
            try:
                twin = twin.to(op[1])
                tres = ("ok", None)
            except Exception as e:
                tres = ("err", type(e).__name__)
            if tres != res:
                fails.append((f"history:ito-outcome:{res[1] or 'ok'}", f"{plan['v']} ± {plan['s']} {unit!r} after {done}: ito {res}, out-of-place to() {tres}"))
                break
        elif op[0] in ("ito_base_units", "ito_root_units", "ito_reduced_units"):
            twin = getattr(twin, op[0][1:])()
        elif res[0] == "err" and op[0] == "mutate-returned":
            continue        # converting the returned quantity to a wrong unit fails on the copy only
        hist = "→".join(o[0] if o[0] != "read" else f"read({o[1]})" for o in done)
        shape = ("mutate" if any(o[0] == "mutate-returned" for o in done) else "read-then-ito"
                 if any(o[0] == "read" for o in done) and any(o[0].startswith("ito") for o in done) else "plain")
        try:
            val, err = m.value, m.error
        except Exception as e:
            fails.append((f"history:accessor-error:{type(e).__name__}", f"after {hist}: {e}"))
            break
        nomv, std = m.magnitude.nominal_value, m.magnitude.std_dev
        tnv, tsd = twin.magnitude.nominal_value, twin.magnitude.std_dev
        scale = abs(tnv) + abs(tsd) + (300.0 if any(k in str(twin.units) for k in ("degree", "kelvin")) else 0.0)
        what = (f"M({plan['v']}, {plan['s']}, {unit!r}) [{plan['form']}] after {done}: value {val!r}, error {err!r}, "
                f"while the measurement is {m!r} and a fresh measurement converted out of place is {twin!r}")
        if ucd(val._units) != ucd(m._units) or ucd(err._units) != ucd(m._units):
            fails.append((f"history:{shape}:stale-units", what))
        elif val.magnitude != nomv or err.magnitude != std:
            fails.append((f"history:{shape}:stale-numbers", what))
        elif ucd(m._units) != ucd(twin._units) or abs(nomv - tnv) > 1e-9 * scale or abs(std - tsd) > 1e-9 * max(abs(tsd), 1e-300):
            fails.append((f"history:{shape}:differs-from-out-of-place", what))
        else:
            try:
                r1 = m.rel
                r2 = abs(std / nomv)
                if not math.isclose(r1, r2, rel_tol=1e-12):
                    fails.append((f"history:{shape}:rel", f"{what}; rel {r1!r} but |error/value| = {r2!r}"))
            except ZeroDivisionError:
                pass
        if collect is not None:
            collect.append((list(done), m, val, err))
        if fails:
            break
    return fails


# ---------------------------------------------------------------------------- the run
def run(ck):
    rng = random.Random(ck.seed)
    thorough = ck.tier == "thorough"
    w = World()
    qk = w.quirks()
    header = HEADER_T.format(eof=coq_bool(qk["eof"]), short=coq_bool(qk["short"]), epre=coq_bool(qk["epre"]))
    ck.extra["defect_switches_selected"] = qk
    ck.rule = ("notation instances: random decimal literals (5 shapes, nan) x 8 parenthesised / 3 short layouts x "
               "{no exponent, e<digits>, e/E+-<digits>} x followers (units, operators, end of input); ordinary and "
               "malformed expression strings; values m·10^k, k in -20..20, errors likewise (exact decimals); unit pairs: "
               "all same-dimension pairs of canonical units incl. offset and delta units (quick: all temperature pairs + "
               "a sample); constructor forms x error as number / Quantity / relative / negative / wrong dimension; "
               "random expression trees (depth <= 4) over 2-4 shared variables. non-trivial = distinct input")
    ck.assumptions += [
        "uncertainties computes in binary floats: nominal values and variances are compared with the model's exact "
        "rationals within 1e-12 relative to a running magnitude bound (differential testing, not proof)",
        "Python's tokenize is trusted to produce the token lists (the model starts from them); str.isdigit on ASCII",
        "logarithmic units are outside the model (their converters are not affine)",
        "std_dev is a square root: the model states sigma through the variance, and through |d|·sigma_i for forms "
        "depending on one variable",
    ]
    ck.trusted.append("uncertainties 3.2.3 (linear error propagation, number formatting) is not modelled beyond first-order affine forms")
    ck.coq_build(["Properties/C19.vo", "Model/MeasureRun.vo"])

    cases = []          # (coq term, replay dict)
    fails = []          # (key, desc, replay)

    def add(term, rp, key):
        cases.append((term, rp))
        ck.case(key=key, nontrivial=True, sample=rp if len(ck.samples) < 6 else None)

    def record(fl, rp):
        for key, desc in fl:
            fails.append((key, desc, rp))

    # ------------------------------------------------------------ T2-style tie: priority table and +/- operator
    from uncertainties import ufloat
    pr = w.pe._OP_PRIORITY
    add("KPrio " + coq_list([f"({coq_str(k)}, {v}%Z)" if v >= 0 else f"({coq_str(k)}, ({v})%Z)" for k, v in pr.items()]),
        {"kind": "prio"}, ("prio",))
    if w.pe._BINARY_OPERATOR_MAP.get("+/-") is not ufloat:
        fails.append(("plusminus-operator", "_BINARY_OPERATOR_MAP['+/-'] is not uncertainties.ufloat", {"kind": "prio"}))

    # ------------------------------------------------------------ tokenizer: notation family
    def tok_case(s, rp, count):
        """model vs real tokenizer on the real token list of s; returns observed tokens or None"""
        try:
            plain = w.plain_tokens(s)
        except (tokenize.TokenError, SyntaxError, IndentationError):
            ck.count("tokenize-refuses-input")
            return None
        try:
            obs = w.unc_tokens(s)
            term = f"KTok {coq_toks(plain)} (TROk {coq_toks(obs)})"
        except Exception as e:
            obs = e
            term = f"KTok {coq_toks(plain)} (TRErr {ecls(e)})"
            ck.count("tokenizer-raises:" + type(e).__name__)
        add(term, rp, ("tok", s))
        ck.count(count)
        return obs, plain

    n_inst = 2600 if thorough else 400
    followers = ["", "", " ", " m", "*m", " meter", " m**2", "m", " km", " eV", "eV", " erg", "erg", " E", " e", " + 2", " - 1",
                 "+2", " 5", "(2)", " (2) m", ")", " e5", " * 3 m", "/s", " eV + 3 eV", "eV+3 eV", "eV-3 eV", " erg - 2 erg",
                 "erg+5", "e", "E+3", "e+x", " second", " electron_volt", "exa"]
    for _ in range(n_inst):
        n = rnd_instance(rng)
        follow = rng.choice(followers)
        prefix = rng.choice(["", "", "", "2 * ", "(", "3 + ", "x*", "- "])
        s = prefix + inst_text(n) + follow + (")" if prefix == "(" else "")
        rp = {"kind": "notation", "inst": n, "prefix": prefix, "follow": follow, "string": s}
        r = tok_case(s, rp, f"notation:{n['style']}:{'exp' if n['exp'] else 'noexp'}")
        if r is None:
            continue
        # the rendered cores are what Python's tokenizer yields (instance at the start of the string)
        try:
            p2 = w.plain_tokens(inst_text(n) + " m")
            add(f"KRender {coq_inst(n)} {coq_toks(p2)}", dict(rp, kind="render"), ("render", inst_text(n)))
        except tokenize.TokenError:
            pass
        # oracles on the bare family: followed by a unit / by nothing
        f2 = rng.choice([f for f in FOLLOW_UNIT if n["exp"] is None or f != "m"] + ["", " "])
        rp2 = {"kind": "notation-oracle", "inst": n, "follow": f2}
        record(oracle_tokens(w, n, f2), rp2)
        # at the ureg(...) level whitespace before "(" or before the exponent is multiplication
        # (string_preprocessor): those spellings are notations for the tokenizer only
        if (n["esp"] and n["exp"] is not None) or n["layout"] == "{v} ({u})":
            continue
        units = {" m": {"meter": F(1)}, "*m": {"meter": F(1)}, " meter": {"meter": F(1)}, " m**2": {"meter": F(2)},
                 " m/s": {"meter": F(1), "second": F(-1)}, "m": {"meter": F(1)}, " km": {"kilometer": F(1)}}.get(f2)
        record(oracle_parse(w, n, f2, units), rp2)
        ck.case(key=("notation-oracle", inst_text(n), f2))
        # numbers around +/- denote what ureg reports
        if f2.strip() and n["v"] != "nan" and n["u"] != "nan":
            try:
                pq = w.ureg.parse_expression(inst_text(n) + f2)
                mg = pq.magnitude
                pl = w.plain_tokens(inst_text(n) + f2)
                nv = -mg.nominal_value if n["minus"] else mg.nominal_value
                if abs(exp_value(n["exp"])) <= 25:
                    add(f"KTokVal {coq_toks(pl)} {coq_q(F(nv))} {coq_q(F(mg.std_dev))}", dict(rp2, kind="tokval"), ("tokval", inst_text(n), f2))
            except Exception:
                pass

    # F71 family: notation immediately followed by a unit starting with e/E and more input
    for _ in range(60 if thorough else 24):
        n = rnd_instance(rng)
        n["style"], n["layout"], n["exp"], n["minus"] = "paren", rng.choice(PAREN_LAYOUTS[:5]), None, False
        n["v"], n["u"] = rnd_literal(rng, "d.d"), rnd_literal(rng, "0.d")
        unit = rng.choice(["eV", "erg", "exameter", "EHz", "electron_volt", "m", "kg", "J"])
        sp = rng.choice(["", " "])
        op = rng.choice([" + ", " - ", "+", "-"])
        a_text = inst_text(n) + sp + unit
        b_text = f"{rng.randint(1, 9)} {unit}"
        rp = {"kind": "continuation", "a": a_text, "op": op, "b": b_text}
        record(oracle_additive(w, a_text, op, b_text), rp)
        tok_case(a_text + op + b_text, rp, "continuation")
        ck.case(key=("continuation", a_text, op, b_text))

    # ------------------------------------------------------------ tokenizer: conservative and malformed streams
    atoms = ["1", "2.5", "3e5", "0", "x", "m", "s", "kg", "nan", "e", "E", "e5", "1_000", "0x1F", "2j", "meter", ".5", "7."]
    opsx = ["+", "-", "*", "/", "**", "//", "%", " ", " ", "(", ")", "+/-", "±", " +/- ", "^"]
    for _ in range(1500 if thorough else 220):
        k = rng.randint(1, 9)
        s = "".join(rng.choice(atoms) if i % 2 == 0 else rng.choice(opsx) for i in range(2 * k + 1))
        tok_case(s, {"kind": "ordinary", "string": s}, "ordinary-expression")
    soup = list("0123456789..eE+-/()* ") + ["nan", "m", "+/-", "±", "(", ")", "e+", "e-", "0", "1.0(1)", "(1+/-2)"]
    for _ in range(1500 if thorough else 220):
        s = "".join(rng.choice(soup) for _ in range(rng.randint(1, 14)))
        tok_case(s, {"kind": "malformed", "string": s}, "malformed")
    for s in ["1 ± 2", "(1±2)e3 m", "a±b", "±", "1 +/- 2 ± 3", "µm ± 1", "(1.0 ± 0.1) µm", "°C", "1.0 ±0.1 m²"]:
        add(f"KReplace {coq_str(s)} {coq_str(s.replace('±', '+/-'))}", {"kind": "replace", "string": s}, ("replace", s))

    # trees
    tree_strings = ["(1.0 +/- 0.1) m", "2 * 4.0+/-0.1 m", "4.0 +/- 0.1 * 2 m", "-(4.0+/-0.1) m", "(-4.0+/-0.1) m", "4.0(1)e3 m",
                    "1.0(1) m + 2.0(2) m", "(1.0+/-0.1)e+05 m / (2.0+/-0.1) s", "3 m +/- 1 m", "2**3.0+/-0.1", "1.0(1)**2",
                    "(1.0 +/- 0.1", "1.0 +/- ", "+/- 1", "(1.2 +/- 0.4)**2 m", "1.2(4)**2", "2**1.0(1)", "1.0(1)**2**3", "6/2(1.0(1))",
                    "3 m / 2(1.0 +/- 0.1) s", "1.0(1)^2 * 2"]
    for _ in range(200 if thorough else 60):
        n = rnd_instance(rng)
        tree_strings.append(rng.choice(["", "2 * ", "3 + ", "- "]) + inst_text(n) + rng.choice([" m", " m**2", " * 3 s", " / s + 1 m/s", "**2"]))
    for s in tree_strings:
        try:
            plain = w.plain_tokens(s)
        except (tokenize.TokenError, SyntaxError):
            continue
        try:
            t = w.pe.build_eval_tree(w.pe.uncertainty_tokenizer(s)).to_string()
            add(f"KTree {coq_bool(qk['paren_any'])} {coq_bool(qk['pow_exempt'])} {coq_toks(plain)} (Some {coq_str(t)})", {"kind": "tree", "string": s}, ("tree", s))
        except Exception:
            add(f"KTree {coq_bool(qk['paren_any'])} {coq_bool(qk['pow_exempt'])} {coq_toks(plain)} None", {"kind": "tree", "string": s}, ("tree", s))
        ck.count("trees")

    # ------------------------------------------------------------ conversion: unit pairs
    from . import regk
    names = regk.canonical_names(w.ur)
    bydim = {}
    for nme in names:
        d = w.ur._units[nme]
        if type(d.converter).__name__ == "LogarithmicConverter":
            continue
        try:
            dim = tuple(sorted(ucd(w.ur.get_dimensionality(nme)).items()))
        except Exception:
            continue
        bydim.setdefault(dim, []).append(nme)
    temp = next(v for k, v in bydim.items() if k == (("[temperature]", F(1)),))
    pairs = [(a, b) for a in temp for b in temp]
    allpairs = [(a, b) for v in bydim.values() for a in v for b in v if a != b and v is not temp]
    pairs += allpairs if thorough else rng.sample(allpairs, 300)
    # cross-dimension and delta/offset mixes
    pairs += [("degree_Celsius", "meter"), ("meter", "second"), ("delta_degree_Celsius", "degree_Celsius"),
              ("degree_Celsius", "delta_degree_Fahrenheit"), ("kelvin", "delta_degree_Celsius")]
    ck.extra["unit_pairs"] = len(pairs)
    for src, dst in pairs:
        su, du = {src: F(1)}, {dst: F(1)}
        try:
            so = slope_offset(w, src, dst)
            if so is None:
                ck.count("pair-skipped-float-factor")
                continue
            add(f"KConv {coq_uc(su)} {coq_uc(du)} (CVOk {coq_q(so[0])} {coq_q(so[1])})", {"kind": "conv", "src": src, "dst": dst}, ("conv", src, dst))
        except Exception as e:
            add(f"KConv {coq_uc(su)} {coq_uc(du)} (CVErr {ecls(e)})", {"kind": "conv", "src": src, "dst": dst}, ("conv", src, dst))
            ck.count("pair-error:" + type(e).__name__)
            so = None
        ck.count("unit-pairs")
        # a measurement through the same pair
        vq, vt = dec(rng.randint(1, 9999) * rng.choice([1, 1, 1, -1]), rng.randint(-20, 17))
        sq, st = dec(rng.randint(1, 999), rng.randint(-20, 17))
        v, s = float(vt), float(st)
        rp = {"kind": "convert", "v": vt, "s": st, "src": src, "dst": dst}
        try:
            record(oracle_convert(w, v, s, src, dst), rp)
        except Exception as e:
            fails.append((f"convert-oracle-error:{type(e).__name__}", f"{rp}: {e}", rp))
        if so is not None:
            try:
                m2 = w.M(v, s, src).to(dst)
                try:
                    rel = coq_opt(coq_q(F(m2.rel)))
                except ZeroDivisionError:
                    rel = "None"
                if m2.magnitude.nominal_value != 0:
                    add(f"KAccess {coq_q(vq)} {coq_q(sq)} {coq_uc(su)} {coq_uc(du)} {coq_q(F(m2.value.magnitude))} "
                        f"{coq_q(F(m2.error.magnitude))} {rel}", rp, ("access", vt, st, src, dst))
            except Exception:
                pass

    # ------------------------------------------------------------ constructor forms
    unit_pool = ["m", "cm", "km", "inch", "s", "ms", "kg", "degC", "degF", "kelvin", "degR", "delta_degC", "m/s", ""]
    compat = {"m": ["m", "cm", "km", "inch"], "cm": ["m", "cm", "inch"], "km": ["m", "km"], "inch": ["cm", "inch", "m"],
              "s": ["s", "ms"], "ms": ["s", "ms"], "kg": ["kg", "g", "lb"], "degC": ["degC", "degF", "kelvin", "degR", "delta_degC"],
              "degF": ["degF", "degC", "kelvin"], "kelvin": ["kelvin", "degC", "degR", "delta_degC"], "degR": ["degR", "kelvin", "degF"],
              "delta_degC": ["delta_degC", "kelvin", "delta_degF"], "m/s": ["m/s", "km/hour"], "": ["", "percent"]}
    for _ in range(2400 if thorough else 450):
        form = rng.choice(["qty", "nums", "nums", "bare", "ufloat", "qtyu", "pm", "pm"])
        vu = "" if form == "bare" else rng.choice(unit_pool)
        vq, vt = dec(rng.randint(1, 9999) * rng.choice([1, 1, -1]), rng.randint(-20, 17))
        if rng.random() < 0.04:
            vq, vt = F(0), "0e0"
        neg = rng.random() < 0.12
        eq_, et = dec(rng.randint(0, 999) * (-1 if neg else 1), rng.randint(-20, 17))
        e = {"x": str(eq_)}
        r = rng.random()
        if form in ("qty", "nums", "bare", "pm") and r < 0.4:
            e["u"] = rng.choice(compat[vu]) if rng.random() < 0.9 else rng.choice(["s", "m", "kg"])
        c = {"form": form, "v": str(vq), "vu": vu, "e": e, "rel": form == "pm" and rng.random() < 0.4}
        rp = {"kind": "ctor", "ctor": c}
        try:
            m = build_ctor(w, c)
            res = f"(CTOk {coq_q(F(m.magnitude.nominal_value))} {coq_q(F(m.magnitude.std_dev))} {coq_uc(ucd(m._units))})"
        except Exception as exn:
            res = f"(CTErr {ecls(exn)})"
            ck.count("ctor-raises:" + type(exn).__name__)
        try:
            add(f"KCtor {coq_ctor(w, c)} {res}", rp, ("ctor", json.dumps(c, sort_keys=True)))
        except Exception:
            continue
        ck.count("ctor:" + form)
        try:
            record(oracle_ctor(w, c), rp)
        except Exception as exn:
            fails.append((f"ctor-oracle-error:{type(exn).__name__}", f"{c}: {exn}", rp))
        # all forms that denote the same (v, e, u) agree
        if form == "nums" and "u" not in e and eq_ >= 0 and vq != 0:
            same = [dict(c, form="qty"), dict(c, form="ufloat"), dict(c, form="qtyu"), dict(c, form="pm", rel=False),
                    dict(c, form="pm", rel=True, e={"x": str(eq_ / abs(vq))}), dict(c, form="qty", e={"x": str(eq_), "u": vu or "dimensionless"})]
            try:
                ref = build_ctor(w, c)
                for c2 in same:
                    m2 = build_ctor(w, c2)
                    ok = (math.isclose(m2.magnitude.nominal_value, ref.magnitude.nominal_value, rel_tol=1e-14)
                          and math.isclose(m2.magnitude.std_dev, ref.magnitude.std_dev, rel_tol=1e-12) and m2._units == ref._units)
                    if not ok:
                        fails.append((f"ctor-forms-disagree:{c2['form']}", f"{c2} gives {m2!r}, {c} gives {ref!r}", {"kind": "ctor", "ctor": c2}))
                    ck.case(key=("forms", json.dumps(c2, sort_keys=True)))
            except Exception as exn:
                fails.append((f"ctor-forms-error:{type(exn).__name__}", f"{c}: {exn}", rp))

    # ------------------------------------------------------------ arithmetic expressions with shared variables
    n_expr = 2000 if thorough else 320
    done = 0
    attempts = 0
    while done < n_expr and attempts < 20 * n_expr:
        attempts += 1
        blind = rng.random() < 0.5
        nv = rng.randint(2, 4)
        decade = rng.randint(-20, 17)
        V = {}
        objs = {}
        for i in range(1, nv + 1):
            fam = rng.choice(FAMILIES)
            vq, vt = dec(rng.randint(1, 9999), decade + rng.randint(-2, 2))
            sq, st = dec(rng.randint(0, 999) if rng.random() < 0.95 else 0, decade + rng.randint(-6, 1))
            u = rng.choice(fam)
            V[i] = (vq, sq, u, vt, st)
            objs[i] = w.M(float(vt), float(st), u) if blind else w.Q(ufloat(float(vt), float(st)), u)
        e = gen_expr(rng, V, rng.randint(1, 4))
        rp = {"kind": "expr", "blind": blind, "vars": {str(i): [x[3], x[4], x[2]] for i, x in V.items()}, "expr": e}
        try:
            try:
                r, term = run_expr(w, e, objs, rng)
            except Skip:
                continue
            mg = r.magnitude if hasattr(r, "magnitude") else r
            if not hasattr(r, "_units"):
                continue
            if hasattr(mg, "nominal_value"):
                nomv, var = F(mg.nominal_value), F(mg.std_dev ** 2)
                if mg.std_dev != 0 and var == 0:
                    continue        # variance underflows in binary64
            else:
                nomv, var = F(mg), F(0)
            res = f"(EXOk {coq_q(nomv)} {coq_q(var)} {coq_uc(ucd(r._units))})"
            ck.count("expr-ok")
        except (w.pint.errors.DimensionalityError, w.pint.errors.OffsetUnitCalculusError, ZeroDivisionError) as exn:
            # the coq term is needed even when pint raises: rebuild it without evaluating
            term = expr_term(e, rng, w)
            if term is None:
                continue
            res = f"(EXErr {ecls(exn)})"
            ck.count("expr-raises:" + type(exn).__name__)
        except OverflowError:
            continue
        Vt = coq_list([f"({i}%positive, ({coq_q(x[0])}, {coq_q(x[1])}, {coq_uc({x[2]: F(1)})}))" for i, x in sorted(V.items())])
        add(f"KExpr {coq_bool(blind)} {Vt} {term} {res}", rp, ("expr", json.dumps(rp, sort_keys=True, default=str)))
        done += 1
    ck.extra["expression_cases"] = done

    # derived measurements keep their correlations (oracle only; see oracle_derived)
    n_der = 0
    for form in CTOR_FORMS:
        for _ in range(3 if thorough else 1):
            u_len, u_len2 = rng.sample(LEN, 2)
            u_time = rng.choice(TIME)
            decade = rng.randint(-6, 6)
            vars_ = {"1": [dec(rng.randint(1, 9999), decade)[1], dec(rng.randint(1, 999), decade - 2)[1], u_len, form],
                     "2": [dec(rng.randint(1, 9999), rng.randint(-3, 3))[1], dec(rng.randint(1, 999), -3)[1], u_time, rng.choice(CTOR_FORMS)],
                     "3": [dec(rng.randint(1000, 9999), -1)[1], dec(rng.randint(1, 99), -1)[1], "kelvin", form]}
            for fe in derived_templates(u_len, u_len2, u_time):
                plan = {"kind": "derived", "vars": vars_, "expr": fe}
                try:
                    record(oracle_derived(w, plan), plan)
                except Exception as exn:
                    fails.append((f"derived-oracle-error:{type(exn).__name__}", f"{plan}: {exn}", plan))
                ck.case(key=("derived", json.dumps(plan, sort_keys=True)))
                n_der += 1
    tries = 0
    target = n_der + (900 if thorough else 160)
    while n_der < target and tries < 40 * target:
        tries += 1
        nv = rng.randint(1, 3)
        decade = rng.randint(-20, 17)
        V = {}
        vars_ = {}
        for i in range(1, nv + 1):
            u = rng.choice(rng.choice(FAMILIES))
            vt = dec(rng.randint(1, 9999), decade + rng.randint(-2, 2))[1]
            st = dec(rng.randint(1, 999), decade + rng.randint(-5, 0))[1]
            V[i] = (None, None, u)
            vars_[str(i)] = [vt, st, u, rng.choice(CTOR_FORMS)]
        e = gen_expr(rng, V, rng.randint(2, 4), allow_pow=True)
        try:
            fe = fill_expr(e, V, rng)
        except Skip:
            continue
        plan = {"kind": "derived", "vars": vars_, "expr": fe}
        try:
            record(oracle_derived(w, plan), plan)
        except (OverflowError, ZeroDivisionError):
            continue
        except Exception as exn:
            fails.append((f"derived-oracle-error:{type(exn).__name__}", f"{plan}: {exn}", plan))
        ck.case(key=("derived", json.dumps(plan, sort_keys=True)))
        n_der += 1
    ck.count("derived-correlation", n_der)
    # the ufloat-plus-unit form is the very same uncertain number as the ufloat it was given
    for _ in range(40 if thorough else 12):
        vt, st = dec(rng.randint(1, 9999), rng.randint(-10, 10))[1], dec(rng.randint(1, 999), rng.randint(-12, 8))[1]
        u = rng.choice(["m", "s", "kelvin", "degC", "kg", ""])
        x = ufloat(float(vt), float(st))
        plan = {"kind": "ufloat-identity", "v": vt, "s": st, "unit": u}
        record(oracle_ufloat_identity(w, plan), plan)
        ck.case(key=("ufloat-identity", vt, st, u))
        ck.count("ufloat-identity")

    # histories on one measurement object: reads, in-place conversions, re-reads, mutated returned values
    for _ in range(1500 if thorough else 320):
        unit = rng.choice(sorted(SEQ_UNITS))
        plan = {"kind": "history", "v": dec(rng.randint(1, 9999) * rng.choice([1, 1, -1]), rng.randint(-6, 6))[1],
                "s": dec(rng.randint(1, 999), rng.randint(-8, 4))[1], "unit": unit,
                "form": rng.choice(["nums", "pm", "ufloat"]), "ops": gen_history(rng, unit)}
        col = []
        try:
            record(oracle_history(w, plan, col), plan)
        except Exception as exn:
            fails.append((f"history-oracle-error:{type(exn).__name__}", f"{plan}: {exn}", plan))
        ck.case(key=("history", json.dumps(plan, sort_keys=True)))
        ck.count("history")
        # the same history through the model: what value / error report at the end
        if col:
            try:
                done, mobj, val, err = col[-1]
                # re-run to learn the units after every in-place conversion (ito_base_units etc. as explicit targets)
                probe = w.M(float(plan["v"]), float(plan["s"]), plan["unit"])
                terms = []
                exact = exact_unit(w, plan["unit"])
                for op in done:
                    res_ = apply_history_op(w, probe, op)
                    if op[0].startswith("ito"):
                        if op[0] == "ito" and res_[0] == "err":
                            terms.append(f"(OIto {coq_uc(ucd(w.ureg.Unit(op[1])._units))})")
                        else:
                            terms.append(f"(OIto {coq_uc(ucd(probe._units))})")
                            exact = exact and exact_unit(w, probe.units)
                    else:
                        terms.append("ORead" if op[0] == "read" else "OMutateReturned")
                if exact:
                    add(f"KHist {coq_q(F(plan['v']))} {coq_q(F(plan['s']))} {coq_uc(ucd(w.ureg.Unit(plan['unit'] or 'dimensionless')._units))} "
                        f"{coq_list(terms)} {coq_q(F(val.magnitude))} {coq_q(F(err.magnitude))} {coq_uc(ucd(val._units))}",
                        plan, ("khist", json.dumps(plan, sort_keys=True)))
            except Exception:
                pass

    # bare (unit-less) operands, uncertain ones included, against dimensioned quantities: both operand orders
    bare_units = ["km", "m/s", "degC", "kelvin", "s", "", "percent", "kg*m**2"]
    bare_vals = [(0.0, None), (0.0, 0.0), (0.0, 0.3), (0.0, 1e-6), (0.0, 4.0e3), (2.5, None), (2.5, 0.1), (1e-300, 0.2),
                 (-3.0, 0.0), (float("nan"), None), (float("nan"), 0.5)]
    for _ in range(1400 if thorough else 360):
        n, sb = rng.choice(bare_vals) if rng.random() < 0.7 else (0.0, rng.randint(1, 999) * 10.0 ** rng.randint(-9, 6))
        plan = {"kind": "bare", "q": [rng.choice(["Q", "QU", "M", "M", "QU"]), repr(float(rng.randint(1, 9999)) * 10.0 ** rng.randint(-3, 3)),
                                      repr(rng.randint(1, 99) / 100.0), rng.choice(bare_units)],
                "bare": [repr(n), None if sb is None else repr(sb)], "op": rng.choice(BARE_OPS), "swap": rng.random() < 0.5}
        try:
            record(oracle_bare(w, plan), plan)
        except Exception as exn:
            fails.append((f"bare-oracle-error:{type(exn).__name__}", f"{plan}: {exn}", plan))
        ck.case(key=("bare", json.dumps(plan, sort_keys=True)))
        ck.count("bare-operand")
        # the + / - cases also go to the model (exact zero test on nominal value AND std_dev)
        if plan["op"] in ("add", "sub") and not math.isnan(n):
            kind_, v_, sq_, unit_ = plan["q"]
            v_, sq_ = float(v_), (0.0 if kind_ == "Q" else float(sq_))
            qobj = {"Q": lambda: w.Q(v_, unit_), "QU": lambda: w.Q(ufloat(v_, sq_), unit_), "M": lambda: w.M(v_, sq_, unit_)}[kind_]()
            bobj = n if sb is None else ufloat(n, sb)
            import operator as _op
            f_ = getattr(_op, plan["op"])
            try:
                r_ = f_(bobj, qobj) if plan["swap"] else f_(qobj, bobj)
                n_r, s_r = nom_std(r_)
                res = f"(EXOk {coq_q(F(n_r))} {coq_q(F(s_r * s_r))} {coq_uc(ucd(r_._units))})"
            except Exception as exn:
                res = f"(EXErr {ecls(exn)})"
            add(f"KBare {coq_bool(plan['op'] == 'sub')} {coq_bool(plan['swap'])} {coq_q(F(v_))} {coq_q(F(sq_))} "
                f"{coq_uc(ucd(w.ureg.Unit(unit_ or 'dimensionless')._units))} {coq_q(F(n))} {coq_q(F(0.0 if sb is None else sb))} {res}",
                plan, ("kbare", json.dumps(plan, sort_keys=True)))

    # unit rules incl. offset units: Measurement / Quantity(ufloat) against plain quantities (oracle only)
    rule_units = ["m", "cm", "s", "kg", "degC", "degF", "kelvin", "delta_degC", "m/s", "", "degC*m", "1/kelvin"]
    for _ in range(1200 if thorough else 300):
        op = rng.choice(["add", "sub", "mul", "div"])
        a = (float(rng.randint(1, 500)), rng.randint(1, 50) / 10, rng.choice(rule_units))
        b = (float(rng.randint(1, 500)), rng.randint(1, 50) / 10, rng.choice(rule_units))
        rp = {"kind": "unit-rules", "op": op, "a": list(a), "b": list(b)}
        try:
            record(oracle_unit_rules(w, op, a, b), rp)
        except Exception as exn:
            fails.append((f"unit-rules-oracle-error:{type(exn).__name__}", f"{rp}: {exn}", rp))
        ck.case(key=("unit-rules", op, a, b))
        ck.count("unit-rules")

    # ------------------------------------------------------------ formats
    fmt_units = ["meter", "second", "meter/second**2", "degC", "", "kilogram*meter**2", "eV"]
    for _ in range(500 if thorough else 80):
        # lossless measurements: std has 1 or 2 significant digits, nominal goes down to the same decimal place
        k = rng.randint(-6, 6)
        # (uncertainties shows 2 digits of an uncertainty whose leading digits are 10..35, else 1)
        sd = rng.choice([rng.randint(1, 9) * 10, rng.randint(10, 35), rng.randint(10, 35), rng.randint(10, 99)])
        nomi = rng.randint(-99999, 99999)
        if sd % 10 == 0 and rng.random() < 0.9:
            nomi = nomi // 10 * 10
        v, s = F(nomi) * F(10) ** k, F(sd) * F(10) ** k
        unit = rng.choice(fmt_units)
        for spec in PLAIN_SPECS + OTHER_SPECS:
            rp = {"kind": "format", "v": str(v), "s": str(s), "unit": unit, "spec": spec}
            fl, text = oracle_format(w, v, s, unit, spec)
            record(fl, rp)
            ck.case(key=("format", str(v), str(s), unit, spec))
            ck.count("format:" + ("other-spec" if spec not in PLAIN_SPECS else "plain-lossless" if text is not None else "plain-lossy-skipped"))
    # join_unc itself
    from pint.delegates.formatter._format_helpers import join_unc
    ms = ["4.00 +/- 0.10", "(4.00 +/- 0.10)e+03", "4.00(10)", "4.00(10)e+03", "(4.0", "4.0)", "", "(", ")", r"\left(4 \pm 1\right)", "4 ± 1", "{4.00 +- 0.10}"]
    for m_ in ms:
        for u_ in ["meter", "", "m / s"]:
            for sep, lp, rp_ in (("{} {}", "(", ")"), (r"{}\ {}", r"\left(", r"\right)"), ("{}{}", "", "")):
                out = join_unc(sep, lp, rp_, m_, u_)
                add(f"KJoin {coq_str(sep.replace('{}', ''))} {coq_str(lp)} {coq_str(rp_)} {coq_str(m_)} {coq_str(u_)} {coq_str(out)}",
                    {"kind": "join", "args": [sep, lp, rp_, m_, u_]}, ("join", sep, m_, u_))
    ck.count("join_unc", len(ms) * 9)

    # ------------------------------------------------------------ differ inside Coq
    # cases that never look at the registry (tokens, trees, join_unc, priorities) run against the empty
    # registry: their shards do not pay for evaluating the bundled one
    noreg = [i for i, (c, _) in enumerate(cases) if c.split(" ", 1)[0] in ("KTok", "KReplace", "KRender", "KTree", "KTokVal", "KPrio", "KJoin")]
    withreg = [i for i in range(len(cases)) if i not in set(noreg)]
    bad_a = ck.coq_mismatches("c19t", header, [cases[i][0] for i in noreg], "ok_noreg", shard=300)
    bad_b = ck.coq_mismatches("c19r", header, [cases[i][0] for i in withreg], "ok", shard=300)
    bad = None if bad_a is None or bad_b is None else sorted([noreg[i] for i in bad_a] + [withreg[i] for i in bad_b])
    ck.extra["model_vs_impl_cases"] = len(cases)
    ck.extra["model_vs_impl_disagreements"] = None if bad is None else len(bad)
    if bad:
        ck.extra["disagreements_sample"] = [cases[i][1] for i in bad[:60]]
    seen = set()
    for key, desc, rp in fails:
        if key in seen:
            continue
        seen.add(key)
        ck.violation(key, desc, rp)
    ck.extra["oracle_failures"] = len(fails)
    if bad:
        first = cases[bad[0]]
        shown = ck.coq_show(header, f"ok ({first[0]})") if len(first[0]) < 20000 else ""
        if not any(ck._match_known(k) is None for k, _, _ in fails):
            ck.violation("correspondence", "model and implementation disagree; no (unlisted) property oracle failed",
                         {"first_disagreement": first[1], "coq_case": first[0][:6000], "n_disagreements": len(bad),
                          "kinds": sorted({cases[i][1].get("kind", "?") for i in bad}), "coq": shown}, no_input=True)
        ck.broken.append(f"correspondence Model.MeasureRun.c19_ok: {len(bad)} disagreements, first: {json.dumps(first[1], default=str)[:600]}")


def expr_term(e, rng, w):
    """Coq term of an expression whose evaluation raised: 'to' nodes cannot be filled"""
    k = e[0]
    if k == "var":
        return f"(XVar {e[1]})"
    if k == "qty":
        return f"(XQty {coq_q(F(e[1]))} {coq_uc({e[2]: F(1)})})"
    if k == "scale":
        t = expr_term(e[2], rng, w)
        return None if t is None else f"(XScale {coq_q(F(e[1]))} {t})"
    if k == "to":
        return None
    a, b = expr_term(e[1], rng, w), expr_term(e[2], rng, w)
    if a is None or b is None:
        return None
    return f"({ {'add': 'XAdd', 'sub': 'XSub', 'mul': 'XMul', 'div': 'XDiv'}[k] } {a} {b})"


# ---------------------------------------------------------------------------- replay
def replay(ck, path):
    data = json.load(open(path))
    print(json.dumps(data, indent=1)[:4000])
    rp = data.get("replay", {})
    if not isinstance(rp, dict) or "kind" not in rp:
        return 0
    w = World()
    k = rp["kind"]
    fl = []
    if k in ("notation-oracle", "notation"):
        f2 = rp.get("follow", "")
        fl = oracle_tokens(w, rp["inst"], f2) + oracle_parse(w, rp["inst"], f2, None)
    elif k == "continuation":
        fl = oracle_additive(w, rp["a"], rp["op"], rp["b"])
    elif k == "ctor":
        fl = oracle_ctor(w, rp["ctor"])
    elif k == "convert":
        fl = oracle_convert(w, float(rp["v"]), float(rp["s"]), rp["src"], rp["dst"])
    elif k == "unit-rules":
        fl = oracle_unit_rules(w, rp["op"], tuple(rp["a"]), tuple(rp["b"]))
    elif k == "derived":
        fl = oracle_derived(w, rp)
    elif k == "bare":
        fl = oracle_bare(w, rp)
    elif k == "history":
        fl = oracle_history(w, rp)
    elif k == "ufloat-identity":
        fl = oracle_ufloat_identity(w, rp)
    elif k == "format":
        fl, text = oracle_format(w, F(rp["v"]), F(rp["s"]), rp["unit"], rp["spec"])
        print("rendered:", text)
    for key, desc in fl:
        print(f"ORACLE-FAILS {key}: {desc}")
    print("reproduced" if any(key == data.get("key") for key, _ in fl) else "not reproduced")
    return 1 if fl else 0
