"""C20 — the bundled registry carries the internationally standardised values.

Theorems: coq/Properties/C20.v — every row of the hand-curated table data/standards.tsv
(turned into coq/Gen/Standards.v by harness/t_standards.py) against the registry T1 regenerates
from /repo's definition files (finite, vm_compute; the bound is the table).

K (this file) asks the REAL pint about every row:
  * Fraction registry: Quantity(0|1, name).to_root_units() (offset and scale), dimensionality,
    get_symbol, conversion to the coherent SI (or g-cm-s) unit  — exact;
  * every public route from the registry to "factor x SI units" must tell the same standardised
    value: get_root_units, get_base_units under the default system (mks), system='SI' and
    system='cgs' (factor AND returned units), Quantity.to_base_units, ureg.convert, Quantity.to —
    for the unit itself and, for exact rows, its inverse and its square (so every base unit that a
    system replaces occurs with both signs of exponent);
  * float registry: the same numbers within 4 ulp;
  * symbol <-> unit: every standard symbol of the table and every prefix symbol in front of it (ms, mS,
    mA, ma, kA, mK … about 5 400 strings; own spellings of other units and doubly readable strings left
    out) must denote that prefix and that unit with name, dimension, factor and composed symbol — on a
    FRESH registry and on registries that were first queried case-insensitively (per-call
    case_sensitive=False on all case variants), in the float registry, and (thorough) after
    get_name(..., case_sensitive=False), after long-name / plural lookups and in random order; a
    failure is reported with a shortest earlier query that reproduces it on a fresh registry;
  * thorough: every spelling (symbol, aliases, plural) of every row, every alias of every prefix;
  * the model on the same names (RegistryRun cases: root units, dimensionality, symbol), so the
    Coq theorem and the real registry are tied on exactly the rows the theorem speaks about.
A failing row is a VIOLATION with key row:<name>:<aspect> and the pint call, expected and
observed value as replay, unless known_findings/C20.json lists it.
"""
from __future__ import annotations

import math
import re
from fractions import Fraction as F

from . import regk, t_standards
from .common import coq_list, coq_str

ULPS = 4
ULPS_BASE = 4      # get_base_units / to_base_units of the float registry (root factor, then one more conversion)
HEADER = ("From PintV Require Import Model.UC Model.Eval Model.Registry Model.RegistryRun Model.Standards "
          "Model.Groups Model.Systems Model.StandardsBase Model.StandardsSymbols Gen.DefaultDefs Gen.DefaultReg Gen.Standards.\n"
          "Open Scope string_scope.\n"
          "Definition dflt_system : option system := match Eval.assoc \"system\" default_defaults with "
          "Some n => system_of default_reg default_systems n | None => None end.\n")
MAX_PER_ASPECT = 6     # unlisted violations reported one by one per aspect; the rest go into one summary
FRAC = "pint.UnitRegistry(non_int_type=Fraction, cache_folder=None)"
FLT = "pint.UnitRegistry(cache_folder=None)"


def fr(x):
    return str(F(x)) if isinstance(x, (int, F)) else repr(x)


def is_exact(x):
    return isinstance(x, (int, F)) and not isinstance(x, bool)


def ulps(a: float, b: float) -> float:
    if a == b:
        return 0.0
    if math.isnan(a) or math.isnan(b) or math.isinf(a) or math.isinf(b):
        return math.inf
    return abs(a - b) / math.ulp(max(abs(a), abs(b)))


def coherent(row):
    """the coherent unit of the row's basis as a {unit: exponent} dict"""
    table = t_standards.SI_UNIT if row["basis"] == "SI" else t_standards.CGS_UNIT
    return {table[d]: e for d, e in row["dims"].items()}


def unit_text(d):
    return " * ".join(u if e == 1 else f"{u} ** ({e})" for u, e in sorted(d.items())) or "dimensionless"


def depends_on(ureg, name):
    """canonical names of all definitions the definition of `name` refers to, transitively"""
    seen, todo = set(), [name]
    while todo:
        n = todo.pop()
        try:
            c = ureg.get_name(n)
            ref = ureg._units[c].reference
        except Exception:
            continue
        for k in (ref or {}):
            if k.startswith("["):
                continue
            try:
                ck_ = ureg.get_name(k)
            except Exception:
                continue
            if ck_ not in seen:
                seen.add(ck_)
                todo.append(ck_)
    return seen


class RowCheck:
    """property oracle for one row on the real registries; collects (aspect, desc, replay)"""

    def __init__(self, ureg, uf):
        self.ureg, self.uf = ureg, uf

    def numbers(self, ureg, spelling, one):
        """(offset, scale) of a unit: root-unit images of 0 and 1"""
        v0 = ureg.Quantity(one * 0, spelling).to_root_units().magnitude
        v1 = ureg.Quantity(one, spelling).to_root_units().magnitude
        return v0, v1 - v0, v1

    def value_ok(self, row, x, expected, tol):
        """exact rows: exact equality in exact arithmetic; approx: rational and within tol; float: within tol"""
        if row["kind"] == "KExact":
            return is_exact(x) and F(x) == expected
        if row["kind"] == "KApprox":
            return is_exact(x) and abs(F(x) - expected) <= tol
        try:
            return abs(F(x) - expected) <= tol
        except (TypeError, ValueError, OverflowError):
            return False

    def check(self, row, spelling=None, with_float=True):
        import pint
        name = spelling or row["name"]
        ureg, out = self.ureg, []
        exp_off = row["offset"] if row["offset"] is not None else F(0)

        def fail(aspect, call, expected, observed, registry=FRAC):
            out.append((aspect, f"{registry}.{call}: expected {expected}, observed {observed}",
                        {"row": row["name"], "spelling": name, "registry": registry, "call": call,
                         "expected": str(expected), "observed": str(observed),
                         "standard": row["source"], "table_line": row["line"], "table_factor": row["factor_text"]}))

        # ---- defined at all?
        try:
            v0, scale, v1 = self.numbers(ureg, name, F(1))
        except pint.errors.UndefinedUnitError as e:
            fail("undefined", f"Quantity(1, {name!r})", "a defined unit", f"UndefinedUnitError({e})")
            return out
        except Exception as e:        # any other failure to evaluate the row is a failure of the row
            fail("factor", f"Quantity(1, {name!r}).to_root_units()", fr(row["root"]), f"{type(e).__name__}: {e}")
            return out
        # ---- the number (root units) and the offset
        if not self.value_ok(row, scale, row["root"], row["root_tol"]):
            what = "" if row["kind"] == "KExact" else f" +- {fr(row['root_tol'])}"
            fail("factor", f"Quantity(1, {name!r}).to_root_units().magnitude - Quantity(0, {name!r}).to_root_units().magnitude",
                 fr(row["root"]) + what, fr(scale))
        if not (is_exact(v0) and F(v0) == exp_off):
            fail("offset", f"Quantity(0, {name!r}).to_root_units().magnitude", fr(exp_off), fr(v0))
        # ---- conversion to the coherent unit of the basis (multiplicative rows)
        if row["offset"] is None:
            tgt = regk.mkuc(ureg, coherent(row))
            call = f"Quantity(1, {name!r}).to({unit_text(coherent(row))!r}).magnitude"
            try:
                x = ureg.Quantity(F(1), name).to(ureg.Unit(tgt)).magnitude
                if not self.value_ok(row, x, row["factor"], row["tol"]):
                    fail("factor", call, fr(row["factor"]), fr(x))
            except Exception as e:
                fail("factor" if not isinstance(e, pint.errors.DimensionalityError) else "dims",
                     call, fr(row["factor"]), f"{type(e).__name__}: {e}")
        # ---- every public route from the registry to "factor x SI units" must tell the standardised value:
        #      get_root_units, get_base_units (default system, SI, cgs), Quantity.to_base_units, convert,
        #      for the unit itself and (exact multiplicative rows) its inverse and its square
        self.routes(row, name, fail, scale, v0, with_float)
        # ---- dimensionality
        dim = {k: F(v) for k, v in ureg.Quantity(F(1), name).dimensionality.items()}
        if dim != row["dims"]:
            fail("dims", f"Quantity(1, {name!r}).dimensionality",
                 {k: str(v) for k, v in sorted(row["dims"].items())}, {k: str(v) for k, v in sorted(dim.items())})
        # ---- symbol
        if row["syms"]:
            sym = ureg.get_symbol(name)
            if sym not in row["syms"]:
                fail("symbol", f"get_symbol({name!r})", " or ".join(map(repr, row["syms"])), repr(sym))
        # ---- float registry
        if with_float:
            try:
                f0, fs, f1 = self.numbers(self.uf, name, 1.0)
                slack = float(row["root_tol"])
                e1 = float(row["root"] + exp_off)
                if not (ulps(float(f1), e1) <= ULPS or abs(float(f1) - e1) <= slack):
                    fail("factor", f"Quantity(1.0, {name!r}).to_root_units().magnitude",
                         f"{e1!r} within {ULPS} ulp", f"{float(f1)!r} ({ulps(float(f1), e1):.1f} ulp)", FLT)
                if not ulps(float(f0), float(exp_off)) <= ULPS:
                    fail("offset", f"Quantity(0.0, {name!r}).to_root_units().magnitude",
                         f"{float(exp_off)!r} within {ULPS} ulp", repr(float(f0)), FLT)
            except Exception as e:
                fail("factor", f"Quantity(1.0, {name!r}).to_root_units()", fr(row["root"]), f"{type(e).__name__}: {e}", FLT)
        return out


def _routes(self, row, name, fail, scale, v0, with_float):
    import pint
    ureg = self.ureg
    M, L = row["dims"].get("[mass]", F(0)), row["dims"].get("[length]", F(0))
    dimless = self.dimless

    def expected(system, e):
        """(value, tolerance, exact?) of 1 <unit>**e in the base units of `system`, from the table row"""
        root, tol = row["root"], row["root_tol"]
        if system == "cgs":                       # gram stays, meter -> centimeter
            k = F(10) ** int(2 * L)
        elif M.denominator == 1:                  # mks / SI: gram -> kilogram
            k = F(1, 1000) ** int(M)
        else:                                     # half-integer mass exponent: irrational in kg
            v = (float(root) * 1000.0 ** (-float(M))) ** e
            return v, abs(v) * 1e-12, False
        v = (root * k) ** e
        # first-order propagation of the stated half-digit through the power
        t = abs(e) * (tol * k) * abs(root * k) ** (e - 1) * F(101, 100) if tol else F(0)
        return v, t, True

    def units_expected(system, e):
        tbl = dict(t_standards.SI_UNIT)
        if system == "cgs":
            tbl.update(t_standards.CGS_UNIT)
        return {tbl[d]: x * e for d, x in row["dims"].items()}

    def close(x, v, t, exact_arith):
        if exact_arith and row["kind"] in ("KExact", "KApprox") and not is_exact(x):
            return False
        try:
            if isinstance(v, float) or not is_exact(x):
                return abs(float(x) - float(v)) <= max(float(t), 1e-12 * abs(float(v)))
            return abs(F(x) - v) <= t
        except (TypeError, ValueError, OverflowError):
            return False

    exps = [1] if (row["offset"] is not None or row["kind"] != "KExact") else [1, -1, 2]
    for e in exps:
        u = ureg.Unit(name) ** e
        utxt = repr(name) if e == 1 else f"ureg.Unit({name!r}) ** {e}"
        # get_root_units
        try:
            f, un = ureg.get_root_units(u)
            v = row["root"] ** e
            t = abs(e) * row["root_tol"] * abs(row["root"]) ** (e - 1) * F(101, 100) if row["root_tol"] else F(0)
            if not close(f, v, t, True):
                fail("factor", f"get_root_units({utxt})[0]", fr(v), fr(f))
        except Exception as ex:
            fail("factor", f"get_root_units({utxt})", fr(row["root"] ** e), f"{type(ex).__name__}: {ex}")
        for system in (None, "SI", "cgs"):
            v, t, rational = expected(system, e)
            call = f"get_base_units({utxt}" + ("" if system is None else f", system={system!r}") + ")"
            shown = fr(v) if rational else repr(v)
            try:
                f, un = ureg.get_base_units(u, system=system)
            except Exception as ex:
                fail("base_units", call, shown, f"{type(ex).__name__}: {ex}")
                continue
            if not close(f, v, t, rational):
                fail("base_units", call + "[0]", shown, fr(f))
            got = {k: F(x) for k, x in un._units.items() if not dimless(k)}
            if got != units_expected(system, e):
                fail("base_units", call + "[1]", unit_text(units_expected(system, e)), unit_text(got))
            if with_float and e == 1:
                try:
                    ff, _ = self.uf.get_base_units(self.uf.Unit(name), system=system)
                    ev = float(v)
                    if not (ulps(float(ff), ev) <= ULPS_BASE or abs(float(ff) - ev) <= float(t)):
                        fail("base_units", call + "[0]", f"{ev!r} within {ULPS_BASE} ulp",
                             f"{float(ff)!r} ({ulps(float(ff), ev):.1f} ulp)", FLT)
                except Exception as ex:
                    fail("base_units", call, shown, f"{type(ex).__name__}: {ex}", FLT)
    # Quantity.to_base_units (default system): images of 0 and 1 (offset rows included), same units
    v, t, rational = expected(None, 1)
    exp_off = row["offset"] if row["offset"] is not None else F(0)
    try:
        b0 = ureg.Quantity(F(0), name).to_base_units()
        b1 = ureg.Quantity(F(1), name).to_base_units()
        if not close(b1.magnitude - b0.magnitude, v, t, rational):
            fail("base_units", f"Quantity(1, {name!r}).to_base_units().magnitude - Quantity(0, {name!r}).to_base_units().magnitude",
                 fr(v) if rational else repr(v), fr(b1.magnitude - b0.magnitude))
        if not (is_exact(b0.magnitude) and F(b0.magnitude) == exp_off):
            fail("offset", f"Quantity(0, {name!r}).to_base_units().magnitude", fr(exp_off), fr(b0.magnitude))
        got = {k: F(x) for k, x in b1._units.items() if not dimless(k)}
        if got != units_expected(None, 1):
            fail("base_units", f"Quantity(1, {name!r}).to_base_units().units", unit_text(units_expected(None, 1)), unit_text(got))
        if with_float:
            fb = self.uf.Quantity(1.0, name).to_base_units().magnitude
            ev = float(v + exp_off) if rational else v + float(exp_off)
            if not (ulps(float(fb), ev) <= ULPS_BASE or abs(float(fb) - ev) <= float(t)):
                fail("base_units", f"Quantity(1.0, {name!r}).to_base_units().magnitude", f"{ev!r} within {ULPS_BASE} ulp",
                     f"{float(fb)!r} ({ulps(float(fb), ev):.1f} ulp)", FLT)
    except Exception as ex:
        fail("base_units", f"Quantity(1, {name!r}).to_base_units()", fr(v) if rational else repr(v), f"{type(ex).__name__}: {ex}")
    # ureg.convert to the explicit coherent unit
    if row["offset"] is None:
        tgt = regk.mkuc(ureg, coherent(row))
        call = f"convert(1, {name!r}, {unit_text(coherent(row))!r})"
        try:
            x = ureg.convert(F(1), ureg.Unit(name), ureg.Unit(tgt))
            if not self.value_ok(row, x, row["factor"], row["tol"]):
                fail("factor", call, fr(row["factor"]), fr(x))
        except Exception as ex:
            fail("factor", call, fr(row["factor"]), f"{type(ex).__name__}: {ex}")


def _dimless(self, k):
    if k not in self._dl:
        try:
            self._dl[k] = not self.ureg.get_dimensionality(self.ureg.UnitsContainer({k: 1}))
        except Exception:
            self._dl[k] = False
    return self._dl[k]


RowCheck.routes = _routes
RowCheck.dimless = _dimless
RowCheck._dl = {}


def spellings_of(ureg, name):
    """every key of the unit table that denotes the same definition, plus the plural forms pint accepts"""
    if name not in ureg._units:
        return []
    canon = ureg._units[name].name
    keys = [k for k, d in ureg._units.items() if d.name == canon and k != name]
    return keys


def check_prefixes(ck, prefixes, ureg, uf, thorough, report):
    import pint
    carriers = [("meter", "m"), ("gram", "g"), ("second", "s")]
    bin_carriers = [("byte", "B"), ("bit", "bit")]
    base_keys = set(regk.registry(F)._units)      # the unit table of a fresh registry (no lazily added names)
    n = 0
    for p in prefixes:
        cs = carriers + bin_carriers if p["base"] == 2 or thorough else carriers

        def fail(aspect, call, expected, observed, registry=FRAC):
            report(f"prefix:{p['name']}:{aspect}",
                   f"{registry}.{call}: expected {expected}, observed {observed}",
                   {"prefix": p["name"], "registry": registry, "call": call, "expected": str(expected),
                    "observed": str(observed), "standard": p["source"], "table_line": p["line"]})
        aliases = [k for k, d in ureg._prefixes.items() if d.name == p["name"]] if thorough else [p["name"]] + p["syms"]
        if p["name"] not in ureg._prefixes:
            fail("undefined", f"_prefixes[{p['name']!r}]", "a defined prefix", "KeyError")
            continue
        for cname, csym in cs:
            for sp in dict.fromkeys([p["name"]] + aliases):
                # a symbol goes with the carrier's symbol, a name with its name; either must parse as
                # (this prefix, this carrier) — a string that pint reads as another unit (fm = fermi) is
                # the symbol ambiguity of C08/C09, not a wrong prefix value: counted, value still compared
                text = sp + (csym if sp in ureg._prefixes and ureg._prefixes[sp].symbol == sp and sp != p["name"] else cname)
                n += 1
                call = f"Quantity(1, {text!r}).to({cname!r}).magnitude"
                try:
                    read = ureg.get_name(text)
                except pint.errors.UndefinedUnitError as e:
                    fail("value", call, fr(p["value"]), f"UndefinedUnitError: {e}")
                    continue
                if read != p["name"] + cname:
                    if text in base_keys:      # dB = decibel, fm = fermi, …: an own unit of that spelling (C08/C09)
                        ck.count("prefix spelling that is another unit's own name (not compared)")
                    else:
                        fail("value", f"get_name({text!r})", repr(p["name"] + cname), repr(read))
                    continue
                try:
                    x = ureg.Quantity(F(1), text).to(cname).magnitude
                except Exception as e:
                    fail("value", call, fr(p["value"]), f"{type(e).__name__}: {e}")
                    continue
                ck.case(key=("prefix", text), nontrivial=True)
                if not (is_exact(x) and F(x) == p["value"]):
                    fail("value", f"Quantity(1, {text!r}).to({cname!r}).magnitude", fr(p["value"]), fr(x))
                xf = uf.Quantity(1.0, text).to(cname).magnitude
                if ulps(float(xf), float(p["value"])) > ULPS:
                    fail("value", f"Quantity(1.0, {text!r}).to({cname!r}).magnitude", repr(float(p["value"])), repr(xf), FLT)
            sym = ureg.get_symbol(p["name"] + cname)
            if sym not in [s + csym for s in p["syms"]]:
                fail("symbol", f"get_symbol({p['name'] + cname!r})", " or ".join(repr(s + csym) for s in p["syms"]), repr(sym))
    ck.count("prefix spellings x carriers", n)


# ---------------------------------------------------------------------------------------------
# symbol <-> unit association: bare standard symbols and every prefix symbol in front of them,
# on a fresh registry and on registries that were queried in other ways before
def readings(fresh, s):
    """the distinct (prefix name, unit name) readings of a string, from the registry's key tables alone
    (prefix spelling + unit spelling [+ plural s]); mirrors what the grammar of names allows, not the code"""
    out = set()
    for pk, pd in fresh._prefixes.items():
        if not s.startswith(pk):
            continue
        for suffix in ("", "s"):
            if not s.endswith(suffix):
                continue
            name = s[len(pk):len(s) - len(suffix)] if suffix else s[len(pk):]
            if suffix and len(name) == 1:
                continue
            d = fresh._units.get(name)
            if d is not None:
                out.add((pd.name, d.name))
    return out


def symbol_entries(rows, prefixes, fresh, counts):
    """[(spelling, expected canonical name, row, prefix or None)] for every standard symbol of the table the
    registry carries and every prefix symbol in front of it; own spellings of other units (cd, Pa, min, ft)
    and strings with two readings are the ambiguity of the symbols themselves (C08) and are left out"""
    by_sym = {}
    for r in rows:
        for us in r["syms"]:
            by_sym.setdefault(us, set()).add(r["name"])
    base_keys = set(fresh._units)
    out = []
    for r in rows:
        d = fresh._units.get(r["name"])
        if d is None or d.name != r["name"] or not d.is_multiplicative or not r["syms"]:
            continue
        for us in r["syms"]:
            if len(by_sym[us]) > 1:
                counts["symbol shared by two rows of the table (not read backwards)"] += 1
                continue
            if us not in base_keys:
                counts["alternative symbol the registry does not carry"] += 1
                continue
            out.append((us, r["name"], r, None, None, us))
            for p in prefixes:
                for ps in p["syms"]:
                    s = ps + us
                    if s in base_keys:
                        counts["prefix+symbol string that is a unit's own spelling (left out)"] += 1
                        continue
                    if len(readings(fresh, s)) != 1:
                        counts["prefix+symbol string with two readings (left out)"] += 1
                        continue
                    out.append((s, p["name"] + r["name"], r, p, ps, us))
    return out


def case_variants(s):
    v = [s, s.lower(), s.upper(), s[:-1] + s[-1].swapcase(), s[0].swapcase() + s[1:], s.swapcase()]
    return list(dict.fromkeys(v))


def warm(ureg, spellings, how):
    """earlier read-only queries on the same registry"""
    import logging
    logging.disable(logging.CRITICAL)          # case-insensitive lookups warn about their ambiguity
    try:
        for s in spellings:
            for v in (case_variants(s) if how == "case-insensitive" else [s]):
                try:
                    if how == "case-insensitive":
                        ureg.parse_units(v, case_sensitive=False)
                    elif how == "get_name case-insensitive":
                        ureg.get_name(v, case_sensitive=False)
                    else:
                        ureg.parse_units(v)
                except Exception:
                    pass
    finally:
        logging.disable(logging.NOTSET)


def check_symbol(ureg, entry, exact=True):
    """[(aspect, call, expected, observed)] for one spelling on one registry"""
    s, want, row, p, ps, us = entry
    pv = p["value"] if p else F(1)
    out = []
    try:
        got = ureg.get_name(s)
    except Exception as e:
        return [("name", f"get_name({s!r})", repr(want), f"{type(e).__name__}: {e}")]
    if got != want:
        try:
            what = f" (1 {s} = {ureg.Quantity(1, ureg.Unit(ureg.UnitsContainer({got: 1}))).to_base_units()})"
        except Exception:
            what = ""
        return [("name", f"get_name({s!r})", repr(want), repr(got) + what)]
    # the spelling itself where it is a name the expression parser can read; %, ‰ … through their unit
    unit = ureg.parse_units(s) if s.isidentifier() else ureg.Unit(ureg.UnitsContainer({got: 1}))
    q = ureg.Quantity(F(1) if exact else 1.0, unit)
    dim = {k: F(v) for k, v in q.dimensionality.items()}
    if dim != row["dims"]:
        out.append(("dims", f"Quantity(1, {s!r}).dimensionality", {k: str(v) for k, v in sorted(row["dims"].items())},
                    {k: str(v) for k, v in sorted(dim.items())}))
    x = q.to_root_units().magnitude
    ev, tol = pv * row["root"], abs(pv) * row["root_tol"]
    if exact:
        ok = (is_exact(x) and abs(F(x) - ev) <= tol) if row["kind"] != "KFloat" else abs(F(x) - ev) <= max(tol, abs(ev) / 10 ** 12)
    else:
        ok = ulps(float(x), float(ev)) <= ULPS or abs(float(x) - float(ev)) <= float(tol)
    if not ok:
        out.append(("factor", f"Quantity(1, {s!r}).to_root_units().magnitude", fr(ev) if exact else repr(float(ev)), fr(x)))
    if exact:
        sym = ureg.get_symbol(s)
        wants = [a + b for a in (p["syms"] if p else [""]) for b in row["syms"]]
        if sym not in wants:
            out.append(("symbol", f"get_symbol({s!r})", " or ".join(map(repr, wants)), repr(sym)))
    return out


def minimal_history(entry, how, full):
    """a shortest earlier query that makes the spelling fail on an otherwise fresh registry"""
    s = entry[0]
    for v in case_variants(s):
        u = regk.registry(F)
        warm(u, [v] if how != "case-insensitive" else [], how)
        if how == "case-insensitive":
            import logging
            logging.disable(logging.CRITICAL)
            try:
                u.parse_units(v, case_sensitive=False)
            except Exception:
                pass
            finally:
                logging.disable(logging.NOTSET)
        if check_symbol(u, entry):
            call = (f"parse_units({v!r}, case_sensitive=False)" if how == "case-insensitive" else
                    f"get_name({v!r}, case_sensitive=False)" if how == "get_name case-insensitive" else f"parse_units({v!r})")
            return [call]
    return full


def check_symbols(ck, rows, prefixes, thorough, report, rng):
    import collections
    counts = collections.Counter()
    fresh = regk.registry(F)
    entries = symbol_entries(rows, prefixes, fresh, counts)
    # the everyday prefixes first, so that the violations reported one by one are the familiar symbols (ms, mA, kA)
    common = ["milli", "kilo", "micro", "mega", "nano", "centi", "giga", "pico", "deci", "hecto", "kibi"]
    entries.sort(key=lambda e: (0 if e[3] is None else 1 + common.index(e[3]["name"]) if e[3]["name"] in common else 99))
    spellings = [e[0] for e in entries]
    longnames = [e[1] for e in entries]
    phases = [("fresh registry", None, F, None),
              ("registry first queried case-insensitively (parse_units(x, case_sensitive=False) for x in the case variants of every spelling)",
               "case-insensitive", F, spellings),
              ("float registry first queried case-insensitively", "case-insensitive", float, spellings)]
    if thorough:
        rev = list(reversed(spellings))
        shuf = spellings[:]
        rng.shuffle(shuf)
        phases += [("registry first queried by get_name(x, case_sensitive=False), reversed order", "get_name case-insensitive", F, rev),
                   ("registry first queried with the long names and plurals (millisecond, milliseconds)", "other spellings", F,
                    longnames + [n + "s" for n in longnames]),
                   ("registry first queried case-insensitively in random order", "case-insensitive", F, shuf)]
    nmin = 0
    for label, how, nit, hist in phases:
        u = regk.registry(nit)
        if hist is not None:
            warm(u, hist, how)
        nbad = 0
        for e in entries:
            res = check_symbol(u, e, exact=nit is F)
            ck.case(key=("symbol", e[0], label), nontrivial=True)
            for aspect, call, expected, observed in res:
                key = f"symbol:{e[0]}:{aspect}"
                history = []
                if hist is not None:
                    nbad += 1
                    if nmin < 2 * MAX_PER_ASPECT and nit is F:
                        nmin += 1
                        history = minimal_history(e, how, [f"<{len(hist)} earlier queries: {label}>"])
                    else:
                        history = [f"<{len(hist)} earlier queries: {label}>"]
                reg = FRAC if nit is F else FLT
                desc = (f"on a {label}: " + (f"after {'; '.join(history)}: " if history else "") +
                        f"{reg}.{call}: expected {expected}, observed {observed}")
                report(key, desc, {"symbol": e[0], "expected_name": e[1], "row": e[2]["name"], "prefix": e[3]["name"] if e[3] else None,
                                   "registry": reg, "history": history, "history_kind": how, "call": call,
                                   "expected": str(expected), "observed": str(observed), "standard": e[2]["source"],
                                   "table_line": e[2]["line"]})
        ck.count(f"symbols checked on a {label.split(' (')[0]}", len(entries))
    for k, v in counts.items():
        ck.count(k, v)
    return entries


MODEL_TARGETS = ["Model/Standards.vo", "Model/StandardsBase.vo", "Model/StandardsSymbols.vo", "Gen/Standards.vo",
                 "Gen/DefaultReg.vo", "Model/RegistryRun.vo"]


class build_lock:
    """the lock ck.coq_build serialises builds with (build/.lock)"""

    def __enter__(self):
        import fcntl
        from .common import BUILD
        self.f = open(BUILD / ".lock", "w")
        fcntl.flock(self.f, fcntl.LOCK_EX)
        return self

    def __exit__(self, *a):
        import fcntl
        fcntl.flock(self.f, fcntl.LOCK_UN)
        self.f.close()


def gen_is_mine():
    """coq/Gen/DefaultDefs.v is what T1 makes of THIS check's checkout"""
    from . import t1_defs
    from .common import COQ
    try:
        return t1_defs.generate()["Gen/DefaultDefs.v"] == (COQ / "Gen" / "DefaultDefs.v").read_text()
    except Exception:
        return False


def model_failing_rows(ck):
    """names of the rows the MODEL registry (regenerated from /repo) fails, listed ones included"""
    rc, out = ck.coq_eval("c20_rows", HEADER +
                          'Goal True. let r := eval vm_compute in (failing_rows default_reg standards) in idtac "@@ROWS" r. '
                          'let p := eval vm_compute in (map sp_name (List.filter (fun p => negb (prefix_ok default_reg p)) std_prefixes)) in idtac "@@PFX" p. '
                          'let b := eval vm_compute in (failing_base_rows default_reg dflt_system standards) in idtac "@@BASE" b. '
                          'exact I. Qed.\n')
    if rc != 0 or "@@ROWS" not in out or "@@BASE" not in out:
        return None, None, None, out
    rows_txt = out.split("@@ROWS", 1)[1].split("@@PFX", 1)[0]
    pfx_txt = out.split("@@PFX", 1)[1].split("@@BASE", 1)[0]
    base_txt = out.split("@@BASE", 1)[1]
    return (re.findall(r'"([^"]+)"', rows_txt), re.findall(r'"([^"]+)"', pfx_txt),
            re.findall(r'"([^"]+)"', base_txt), out)


def run(ck):
    thorough = ck.tier == "thorough"
    ck.rule = ("every row of data/standards.tsv (hand-curated from SI Brochure 9, NIST SP 811 / HB 44, CODATA 2022, IAU, "
               "IEC 80000-13; not from /repo): root-unit factor, offset, dimensionality, symbol and conversion to the coherent "
               "SI unit asked of the real Fraction registry (exact) and of the float registry (<= 4 ulp), the SI factor also through "
               "get_root_units / get_base_units (default system, SI, cgs; unit, inverse, square) / to_base_units / convert; all 32 prefixes on "
               "several carrier units; thorough: every alias/symbol spelling of every row and prefix. "
               "non-trivial = distinct (row, spelling) or (prefix spelling, carrier) evaluated on the real registry")
    ck.assumptions += [
        "data/standards.tsv is correct (trusted, hand-curated, every row annotated with its source)",
        "the model registry is regenerated from default_en.txt/constants_en.txt by T1 on every run; its agreement "
        "with pint on the rows of the table is re-checked here (RegistryRun cases), on all spellings by C01/C02",
        "float:N rows (definitions through a square root) are compared with the real registry only; the Coq theorem "
        "covers their dimension and symbol",
    ]
    ck.trusted.append("data/standards.tsv and harness/t_standards.py (the table is the specification)")

    try:
        rows, prefixes = t_standards.load()
    except Exception as e:
        ck.broken.append(f"standards table unreadable: {e}")
        return
    built = ck.coq_build(["Properties/C20.vo", "Model/RegistryRun.vo"])
    model_ok = built or ck.coq_build(MODEL_TARGETS)

    import pint  # noqa: F401
    ureg, uf = regk.registry(F), regk.registry(float)
    rc = RowCheck(ureg, uf)
    by_name = {r["name"]: r for r in rows}
    reported = {}

    def report(key, desc, replay):
        if key not in reported:
            reported[key] = (desc, replay)

    # ---- property oracle on every row (and, thorough, every spelling of it)
    failing = {}
    nsp = 0
    for row in rows:
        res = rc.check(row)
        ck.case(key=("row", row["name"]), nontrivial=True,
                sample={"row": row["name"], "factor": row["factor_text"], "source": row["source"]})
        ck.count("rows:" + row["kind"])
        if thorough and not res:
            for sp in spellings_of(ureg, row["name"]):
                r2 = rc.check(row, spelling=sp)
                nsp += 1
                ck.case(key=("row", row["name"], sp), nontrivial=True)
                # an alias carries the canonical definition: same number, same symbol
                res += [(a, d, rp) for a, d, rp in r2]
            for sp in [row["name"] + "s"]:
                try:
                    ureg.get_name(sp)
                except Exception:
                    continue
                if ureg.get_name(sp) == ureg.get_name(row["name"]):
                    res += rc.check(row, spelling=sp, with_float=False)
                    nsp += 1
                    ck.case(key=("row", row["name"], sp), nontrivial=True)
        for aspect, desc, rp in res:
            failing.setdefault(row["name"], set()).add(aspect)
            report(f"row:{row['name']}:{aspect}", desc, rp)
    ck.count("alias / plural spellings", nsp)
    check_prefixes(ck, prefixes, ureg, uf, thorough, report)
    import random
    sym_entries = check_symbols(ck, rows, prefixes, thorough, report, random.Random(ck.seed))
    ck.extra["symbol_spellings"] = len(sym_entries)

    # ---- the model on the same names (tie of the Coq theorem to the real registry)
    cases, descs = [], []
    names = [r["name"] for r in rows]
    if thorough:
        names += [sp for r in rows for sp in spellings_of(ureg, r["name"])]
    for n in names:
        try:
            ureg.get_name(n)
        except Exception:
            cases.append(regk.case_name(ureg, n)); descs.append({"get_name": n})
            continue
        for term, d in ((regk.case_root(ureg, {n: F(1)}), {"root_of": n}),
                        (regk.case_dim(ureg, {n: F(1)}), {"dim_of": n}),
                        (regk.case_symbol(ureg, n), {"get_symbol": n})):
            cases.append(term); descs.append(d)
    # coq/Gen and the .vo files are shared by all checks: a concurrent check pointed at ANOTHER checkout
    # (PINT_REPO) may regenerate and rebuild them between this check's build and the evaluations below, which
    # would then read the other tree's registry.  The evaluations therefore run under the build lock, after
    # making sure (regenerate + make if not) that Gen/DefaultDefs.v is this tree's.
    bad = mrows = mpfx = mbase = None
    out = ""
    if model_ok:
        with build_lock():
            if not gen_is_mine():
                ck.extra["rebuilds_after_concurrent_regeneration"] = ck.extra.get("rebuilds_after_concurrent_regeneration", 0) + 1
                ck.generators()
                from .common import COQ, NCPU, sh
                sh(f"timeout 1500 make -j{NCPU} " + " ".join(MODEL_TARGETS), cwd=COQ, timeout=1560)
            saved = ck.__dict__.get("coq_eval")
            if hasattr(ck, "_coq_eval_once"):
                ck.coq_eval = ck._coq_eval_once        # no nested rebuild (it would wait for this very lock)
            try:
                bad = ck.coq_mismatches("c20", regk.HEADER, cases, "ok")
                mrows, mpfx, mbase, out = model_failing_rows(ck)
            finally:
                if saved is None:
                    ck.__dict__.pop("coq_eval", None)
                else:
                    ck.coq_eval = saved
    ck.evaluations += len(cases)
    ck.extra["model_vs_impl_cases"] = len(cases)
    ck.extra["model_vs_impl_disagreements"] = None if bad is None else len(bad)

    # ---- model-side search: which rows does the regenerated model registry fail?
    if model_ok:
        if mrows is None:
            ck.broken.append("model evaluation of failing_rows failed: " + out[-400:])
    # the symbol theorem is the slow one (5 400 strings): its model-side search runs only when the build broke
    msym = None
    if model_ok and not built and not reported:     # needed only when no oracle has named a failing input yet
        rc_, out = ck.coq_eval("c20_syms", HEADER +
                               'Goal True. let r := eval vm_compute in (bad_symbols true default_reg std_prefixes standards) in '
                               'idtac "@@SYMS" r. exact I. Qed.\n', timeout=600)
        if rc_ == 0 and "@@SYMS" in out:
            msym = re.findall(r'"([^"]+)"', out.split("@@SYMS", 1)[1])
            missing = [x for x in msym if not any(k.startswith(f"symbol:{x}:") or k.startswith(f"row:{x}:") for k in reported)]
            if missing:
                ck.broken.append(f"{len(missing)} symbol string(s) are misread in the model registry but fine on the real "
                                 f"registry: " + ", ".join(missing[:12]))
        else:
            ck.broken.append("model evaluation of bad_symbols failed: " + out[-300:])
    ck.extra["symbols_misread_in_model"] = msym
    ck.extra["table_rows"] = len(rows)
    ck.extra["table_prefixes"] = len(prefixes)
    ck.extra["rows_failing_in_model"] = mrows
    ck.extra["rows_failing_in_model_through_base_units"] = mbase
    ck.extra["rows_failing_on_pint"] = {k: sorted(v) for k, v in sorted(failing.items())}
    ck.extra["listed_rows"] = t_standards.known_deviation_rows()

    # ---- verdicts: every failing row is reported; those whose definition refers to no other failing
    # row (the likely edited lines) come first, the others say which failing row they are built on
    canon = {}
    for n in failing:
        try:
            canon[ureg.get_name(n)] = n
        except Exception:
            pass
    # "built on" only makes sense where the definitions are wrong (the model registry fails the row too)
    mall = (set(mrows) | set(mbase or [])) if mrows is not None else set(failing)
    built_on = {n: sorted(canon[c] for c in depends_on(ureg, n)
                          if c in canon and canon[c] != n and canon[c] in mall) if n in mall else []
                for n in failing}
    ck.extra["failing_rows_not_built_on_another_failing_row"] = sorted(n for n in failing if not built_on[n])

    def order(item):
        m = re.match(r"row:([^:]+):", item[0])
        # plain calls on the unit itself before the inverse / square variants
        return (1 if m and built_on.get(m.group(1)) else 0, 1 if " ** " in item[1][1].get("call", "") else 0)
    shown, more = {}, {}
    for key, (desc, rp) in sorted(reported.items(), key=order):
        m = re.match(r"row:([^:]+):", key)
        if m and built_on.get(m.group(1)):
            rp = dict(rp, built_on_failing_rows=built_on[m.group(1)])
            desc += f" [defined in terms of the failing row(s) {', '.join(built_on[m.group(1)])}]"
        aspect = key.split(":", 1)[0] + ":" + key.rsplit(":", 1)[1]
        if ck._match_known(key) is None and shown.get(aspect, 0) >= MAX_PER_ASPECT:
            more.setdefault(aspect, []).append((key, desc))      # same aspect, many rows: one summary below
            continue
        if ck._match_known(key) is None:
            shown[aspect] = shown.get(aspect, 0) + 1
        ck.violation(key, desc, rp)
    for aspect, items in more.items():
        ck.violation(f"more:{aspect}:+{len(items)}",
                     f"{len(items)} further table entries fail in the same way ({aspect}), first: {items[0][1]}",
                     {"aspect": aspect, "keys": [k for k, _ in items], "what": [d for _, d in items][:40]})
    if mrows is not None:
        # a row the model fails but the real registry passes (or the reverse) is a broken tie, not a finding
        only_model = [n for n in sorted(mall) if n not in failing]
        only_impl = []
        for n in sorted(failing):
            numeric_only = failing[n] <= {"factor", "base_units"} and by_name[n]["kind"] == "KFloat"
            if n not in mall and not numeric_only and not _float_only(reported, n):
                only_impl.append(n)
        if only_model:
            ck.broken.append(f"{len(only_model)} row(s) fail in the model registry but pass on the real registry: "
                             + ", ".join(only_model[:12]))
        if only_impl:
            # the definitions say the standard value (the model, regenerated from them, passes) but the
            # registry's code does not deliver it: the violation lines above carry the failing calls
            ck.broken.append(f"{len(only_impl)} row(s) fail on the real registry but pass in the model registry "
                             f"(the definition files are right, the registry's computation is not): " + ", ".join(only_impl[:12]))
        for n in mpfx or []:
            if not any(k.startswith(f"prefix:{n}:") for k in reported):
                ck.broken.append(f"prefix {n} fails in the model registry but passes on the real registry")
    if bad:
        ck.broken.append(f"correspondence RegistryRun.reg_ok: {len(bad)} disagreements, first: {descs[bad[0]]}")
        if not reported:
            ck.violation("correspondence", "model and implementation disagree on a row of the table; no row oracle failed",
                         {"first_disagreement": descs[bad[0]], "coq_case": cases[bad[0]], "n": len(bad)}, no_input=True)


def _float_only(reported, name):
    """all recorded failures of the row come from the float registry (outside the model)"""
    hits = [rp for k, (d, rp) in reported.items() if k.startswith(f"row:{name}:")]
    return bool(hits) and all(rp["registry"] == FLT for rp in hits)


def replay(ck, path):
    """re-run the recorded call's row on the current /repo and print expected vs observed"""
    import json
    rec = json.load(open(path))
    rp = rec.get("replay", {})
    print(json.dumps(rec, indent=1, ensure_ascii=False))
    rows, prefixes = t_standards.load()
    ureg, uf = regk.registry(F), regk.registry(float)
    if "row" in rp and "symbol" not in rp:
        row = next((r for r in rows if r["name"] == rp["row"]), None)
        if row is None:
            print(f"row {rp['row']} is no longer in the table")
            return 0
        res = RowCheck(ureg, uf).check(row, spelling=rp.get("spelling"))
        for aspect, desc, _ in res:
            print(f"STILL FAILING row:{row['name']}:{aspect}: {desc}")
        if not res:
            print(f"row {row['name']} now holds on the current tree")
        return 1 if res else 0
    if "symbol" in rp:
        counts = __import__("collections").Counter()
        entries = [e for e in symbol_entries(rows, prefixes, regk.registry(F), counts) if e[0] == rp["symbol"]]
        if not entries:
            print(f"{rp['symbol']} is no longer a symbol of the table")
            return 0
        u = regk.registry(F if rp.get("registry") == FRAC else float)
        for h in rp.get("history", []):
            m = re.fullmatch(r"(parse_units|get_name)\('(.*)'(, case_sensitive=False)?\)", h)
            if m:
                import logging
                logging.disable(logging.CRITICAL)
                try:
                    getattr(u, m.group(1))(m.group(2), **({"case_sensitive": False} if m.group(3) else {}))
                except Exception:
                    pass
                finally:
                    logging.disable(logging.NOTSET)
            else:
                warm(u, [e[0] for e in symbol_entries(rows, prefixes, regk.registry(F), counts)], rp.get("history_kind"))
        res = check_symbol(u, entries[0], exact=rp.get("registry") == FRAC)
        for aspect, call, expected, observed in res:
            print(f"STILL FAILING symbol:{rp['symbol']}:{aspect}: after {rp.get('history')}: {call}: expected {expected}, observed {observed}")
        if not res:
            print(f"symbol {rp['symbol']} now holds after the recorded history")
        return 1 if res else 0
    if "prefix" in rp:
        got = {}
        check_prefixes(ck, [p for p in prefixes if p["name"] == rp["prefix"]], ureg, uf, True,
                       lambda k, d, r: got.setdefault(k, d))
        for k, d in got.items():
            print(f"STILL FAILING {k}: {d}")
        return 1 if got else 0
    return 0
