"""./check Cnn [--tier quick|thorough] [--replay file]"""
import argparse
import importlib
import os
import sys


def main():
    ap = argparse.ArgumentParser()
    ap.add_argument("pid")
    ap.add_argument("--tier", default=os.environ.get("VERIF_TIER", "quick"))
    ap.add_argument("--replay", default=None)
    a = ap.parse_args()
    seed = int(os.environ.get("VERIF_SEED", "0") or 0)
    pid = a.pid.upper()
    mod = importlib.import_module(f"harness.{pid.lower()}")
    from .common import Check
    ck = Check(pid, a.tier if a.tier in ("quick", "thorough") else "quick", seed)
    if a.replay:
        sys.exit(mod.replay(ck, a.replay))
    mod.run(ck)
    ck.finish()


if __name__ == "__main__":
    main()
