"""Shared machinery of the pint verification checks.

Every check (harness/cNN.py) uses a `Check` object:

    ck = Check("C04", tier, seed)
    ck.coq_build(["Properties/C04.vo"])         # regenerate Gen/, make, Print Assumptions
    out = ck.coq_cases("c04_a", coq_text)        # run model-side cases with vm_compute
    ck.case(nontrivial=True, sample=...)         # coverage accounting
    ck.violation(key, desc, replay)              # or matched against known_findings/<id>.json
    ck.finish()                                  # evidence + exit status
"""
from __future__ import annotations

import fcntl
import glob
import hashlib
import json
import os
import re
import subprocess
import sys
import time
from pathlib import Path

VERIF = Path(__file__).resolve().parent.parent
REPO = Path(os.environ.get("PINT_REPO", "/repo"))
COQ = VERIF / "coq"
BUILD = VERIF / "build"
EVID = VERIF / "evidence"
REPLAYS = VERIF / "replays"
NCPU = os.cpu_count() or 4

FORBIDDEN = re.compile(
    r"\b(Admitted|admit|Axiom|Axioms|Parameter|Parameters|Conjecture|Admit Obligations|"
    r"Unset Guard Checking|bypass_check|Unset Universe Checking|Unset Positivity Checking|"
    r"type-in-type|impredicative-set|native_compute)\b"
)
# axioms the standard library itself declares and that DESIGN.md §5 names
ALLOWED_AXIOMS = {
    "ClassicalDedekindReals.sig_forall_dec",
    "ClassicalDedekindReals.sig_not_dec",
    "FunctionalExtensionality.functional_extensionality_dep",
    "functional_extensionality_dep",
    "sig_forall_dec",
    "sig_not_dec",
    "Classical_Prop.classic",
    "classic",
}


def sh(cmd, timeout=3600, cwd=None, env=None):
    p = subprocess.run(cmd, shell=isinstance(cmd, str), cwd=cwd, env=env, timeout=timeout,
                       stdout=subprocess.PIPE, stderr=subprocess.STDOUT, text=True)
    return p.returncode, p.stdout


# ---------------------------------------------------------------- Coq literals
def coq_str(s: str) -> str:
    return '"' + s.replace('"', '""') + '"'


def coq_Z(n: int) -> str:
    return f"({n})%Z" if n < 0 else f"{n}%Z"


def coq_q(fr) -> str:
    """a Fraction / int as a Qc term"""
    from fractions import Fraction
    fr = Fraction(fr)
    return f"(mkq ({fr.numerator}) {fr.denominator})"


def coq_uc(d) -> str:
    """dict name -> Fraction as a uc term (sorted for determinism)"""
    items = "; ".join(f"({coq_str(k)}, {coq_q(v)})" for k, v in sorted(d.items()))
    return f"(mkuc [{items}])"


def coq_list(xs) -> str:
    return "[" + "; ".join(xs) + "]"


def coq_opt(x) -> str:
    return "None" if x is None else f"(Some {x})"


def coq_bool(b) -> str:
    return "true" if b else "false"


class Check:
    def __init__(self, pid: str, tier: str = "quick", seed: int = 0):
        self.pid = pid
        self.tier = tier
        self.seed = seed
        self.t0 = time.time()
        self.evaluations = 0
        self.nontrivial = set()
        self.samples = []
        self.violations = []      # (key, desc, replay_path, no_input)
        self.known_hits = []
        self.obligations = 0
        self.discharged = 0
        self.theorems = []
        self.axioms = {}
        self.trusted = [
            "Coq 8.16.1 kernel incl. vm_compute (no native_compute)",
            "correspondence harness (harness/*.py): generators, canonicaliser, differ",
            "CPython 3.12 / NumPy / uncertainties semantics are not modelled",
        ]
        self.assumptions = []
        self.dist = {}
        self.extra = {}
        self.rule = ""
        self.broken = []          # names of theorems / ties / correspondence streams that no longer check
        BUILD.mkdir(exist_ok=True)
        EVID.mkdir(exist_ok=True)
        REPLAYS.mkdir(exist_ok=True)
        kf = VERIF / "known_findings" / f"{pid}.json"
        self.known = json.loads(kf.read_text()) if kf.exists() else {"findings": []}

    # ------------------------------------------------------------ accounting
    def case(self, key=None, nontrivial=True, sample=None, n=1):
        self.evaluations += n
        if nontrivial and key is not None:
            self.nontrivial.add(key if isinstance(key, (str, int, tuple)) else repr(key))
        if sample is not None and len(self.samples) < 8:
            self.samples.append(sample)

    def count(self, name, n=1):
        self.dist[name] = self.dist.get(name, 0) + n

    # ------------------------------------------------------------ Coq build
    def generators(self):
        """regenerate coq/Gen/*.v from /repo (content compared; rewritten only on change)"""
        from . import translators
        return translators.regenerate_all(self)

    def coq_build(self, targets, timeout=1500):
        """Regenerate Gen, build targets (full .vo), collect Print Assumptions of every
        Theorem in the Properties file(s) among targets. Returns True iff all good."""
        self._targets = list(targets)
        lock = open(BUILD / ".lock", "w")
        fcntl.flock(lock, fcntl.LOCK_EX)
        try:
            gen_ok, gen_msg = self.generators()
            if not gen_ok:
                self.broken.append(f"translator: {gen_msg}")
                return False
            files = sorted(str(p.relative_to(COQ)) for p in COQ.rglob("*.v")
                           if "/." not in str(p))
            proj = (COQ / "_CoqProject").read_text().splitlines()
            proj = [l for l in proj if l.startswith("-")]
            mk_in = "\n".join(proj + files) + "\n"
            mkf = COQ / "Makefile.files"
            if not mkf.exists() or mkf.read_text() != mk_in or not (COQ / "Makefile").exists():
                mkf.write_text(mk_in)
                rc, out = sh("coq_makefile -f Makefile.files -o Makefile", cwd=COQ)
                if rc != 0:
                    self.broken.append("coq_makefile failed: " + out[-500:])
                    return False
            # forbidden constructs anywhere in the development
            for f in files:
                txt = (COQ / f).read_text()
                txt = re.sub(r"\(\*.*?\*\)", "", txt, flags=re.S)
                m = FORBIDDEN.search(txt)
                if m:
                    self.broken.append(f"forbidden construct '{m.group(0)}' in {f}")
                    return False
            rc, out = sh(f"timeout {timeout} make -j{NCPU} " + " ".join(targets), cwd=COQ,
                         timeout=timeout + 60)
            (BUILD / f"make_{self.pid}.log").write_text(out)
            if rc != 0:
                m = re.findall(r'File "\./([^"]+)", line (\d+)[^\n]*\n(?:Error|[^\n]*\nError)[^\n]*\n?[^\n]*', out)
                first = re.search(r'File "\./([^"]+)", line (\d+)', out)
                where = f"{first.group(1)}:{first.group(2)}" if first else "?"
                self.broken.append(f"coq build failed at {where}")
                self.build_log_tail = out[-3000:]
                # still count obligations so the evidence shows what was not discharged
                self._count_theorems(targets)
                return False
            ok = self._assumptions(targets)
            return ok
        finally:
            fcntl.flock(lock, fcntl.LOCK_UN)
            lock.close()

    def _prop_files(self, targets):
        return [COQ / t.replace(".vo", ".v") for t in targets if t.startswith("Properties/")]

    def _count_theorems(self, targets):
        for pf in self._prop_files(targets):
            names = re.findall(r"^\s*(?:Theorem|Example)\s+([A-Za-z0-9_']+)", pf.read_text(), flags=re.M)
            self.theorems += names
            self.obligations += len(names)

    def _assumptions(self, targets):
        ok = True
        for pf in self._prop_files(targets):
            mod = "PintV." + str(pf.relative_to(COQ))[:-2].replace("/", ".")
            names = re.findall(r"^\s*(?:Theorem|Example)\s+([A-Za-z0-9_']+)", pf.read_text(), flags=re.M)
            self.theorems += names
            self.obligations += len(names)
            src = f"Require Import {mod}.\n" + "".join(
                f'Goal True. idtac "@@ {n}". exact I. Qed.\nPrint Assumptions {n}.\n' for n in names)
            f = BUILD / f"assump_{pf.stem}_{os.getpid()}.v"
            f.write_text(src)
            rc, out = sh(f"timeout 600 coqc -Q {COQ} PintV {f}", cwd=BUILD)
            for ext in (".v", ".vo", ".glob", ".vok", ".vos"):
                try:
                    f.with_suffix(ext).unlink()
                except FileNotFoundError:
                    pass
            for aux in BUILD.glob(f".assump_{pf.stem}_{os.getpid()}.aux"):
                aux.unlink()
            if rc != 0:
                self.broken.append(f"Print Assumptions failed for {pf.name}: {out[-400:]}")
                return False
            blocks = re.split(r"^@@ ", out, flags=re.M)[1:]
            for b in blocks:
                name, _, rest = b.partition("\n")
                name = name.strip()
                if "Closed under the global context" in rest:
                    self.axioms[name] = []
                    self.discharged += 1
                    continue
                ax = [a for a in re.findall(r"^([A-Za-z_][\w.']*)\s*:", rest, flags=re.M) if a != "Axioms"]
                self.axioms[name] = ax
                bad = [a for a in ax if a not in ALLOWED_AXIOMS and a.split(".")[-1] not in ALLOWED_AXIOMS]
                if bad:
                    ok = False
                    self.broken.append(f"theorem {name} depends on non-allowed axioms {bad}")
                else:
                    self.discharged += 1
        return ok

    def _rebuild_quietly(self):
        """Another check (e.g. one pointed at a different checkout by PINT_REPO) rebuilt coq/Gen between this
        check's build and one of its evaluations: regenerate from THIS check's source and make the targets again."""
        import threading
        if not hasattr(Check, "_rebuild_guard"):
            Check._rebuild_guard = threading.Lock()
        with Check._rebuild_guard:
            lock = open(BUILD / ".lock", "w")
            fcntl.flock(lock, fcntl.LOCK_EX)
            try:
                self.generators()
                sh(f"timeout 1500 make -j{NCPU} " + " ".join(getattr(self, "_targets", [])), cwd=COQ, timeout=1560)
            finally:
                fcntl.flock(lock, fcntl.LOCK_UN)
                lock.close()

    def coq_eval(self, name, text, timeout=900):
        """Compile a throw-away .v under build/ against the built development; returns (rc, stdout)."""
        for attempt in range(3):
            if self._gen_disturbed():
                self._disturbed = True
                self._rebuild_quietly()
            rc, out = self._coq_eval_once(name, text, timeout)
            if self._gen_disturbed():
                self._disturbed = True
            if rc != 0 and ("makes inconsistent assumptions" in out or "Compiled library" in out or "is not a valid" in out
                            or "Cannot find a physical path" in out or "bad version number" in out) and attempt < 2:
                self.extra["rebuilds_after_concurrent_regeneration"] = self.extra.get("rebuilds_after_concurrent_regeneration", 0) + 1
                self._disturbed = True
                self._rebuild_quietly()
                continue
            break
        return rc, out

    def _coq_eval_once(self, name, text, timeout=900):
        f = BUILD / f"{name}_{os.getpid()}.v"
        f.write_text(text)
        try:
            rc, out = sh(f"ulimit -s unlimited 2>/dev/null; timeout {timeout} coqc -Q {COQ} PintV {f}", cwd=BUILD,
                         timeout=timeout + 30)
        finally:
            for ext in (".v", ".vo", ".glob", ".vok", ".vos"):
                try:
                    f.with_suffix(ext).unlink()
                except FileNotFoundError:
                    pass
            try:
                (BUILD / f".{f.stem}.aux").unlink()
            except FileNotFoundError:
                pass
        return rc, out

    def coq_mismatches(self, name, header, cases, run_expr, shard=400, timeout=900):
        """Differ inside Coq.  `cases` is a list of Coq terms of some type T; `run_expr` is a Coq
        function T -> bool that is true when the model agrees with the expected (implementation)
        result embedded in the case.  Returns the list of indices where it is false, or None when
        Coq itself failed (reported as broken correspondence)."""
        import concurrent.futures as cf
        shards = [cases[i:i + shard] for i in range(0, len(cases), shard)]

        def one(si):
            body = header + "\nDefinition cases := " + coq_list(shards[si]) + ".\n" + \
                "Definition bad := filter (fun ib : N * bool => negb (snd ib)) " \
                "(imap (fun i c => (N.of_nat i, " + run_expr + " c)) cases).\n" \
                'Goal True. let r := eval vm_compute in (map fst bad) in idtac "@@BAD" r. exact I. Qed.\n'
            rc, out = self.coq_eval(f"{name}_{si}", body, timeout)
            if rc != 0 or "@@BAD" not in out:
                return si, None, out
            txt = out.split("@@BAD", 1)[1]
            idx = [int(x) for x in re.findall(r"(\d+)%N", txt)] if "%N" in txt else \
                [int(x) for x in re.findall(r"\b(\d+)\b", txt)]
            return si, idx, out

        bad = []
        with cf.ThreadPoolExecutor(max_workers=min(NCPU, max(1, len(shards)))) as ex:
            for si, idx, out in ex.map(one, range(len(shards))):
                if idx is None:
                    self.broken.append(f"model evaluation failed for {name} shard {si}: {out[-600:]}")
                    return None
                bad += [si * shard + i for i in idx]
        return sorted(bad)

    def coq_show(self, header, term, timeout=300):
        """Evaluate one term and return Coq's printed value (for replay files only)."""
        rc, out = self.coq_eval("show", header + f"\nEval vm_compute in ({term}).\n", timeout)
        return out.strip()[-4000:]

    # ------------------------------------------------------------ findings
    def _match_known(self, key):
        for f in self.known.get("findings", []):
            if f.get("property") != self.pid or f.get("status") != "known":
                continue
            if re.fullmatch(f["match"], key):
                return f
        return None

    def violation(self, key, desc, replay, no_input=False):
        """key: stable identifier of WHAT fails (used by the known-findings matcher)."""
        k = self._match_known(key)
        if k is not None:
            if k["id"] not in [x["id"] for x in self.known_hits]:
                self.known_hits.append(k)
            return
        h = hashlib.sha1((key + json.dumps(replay, sort_keys=True, default=str)).encode()).hexdigest()[:10]
        path = REPLAYS / f"{self.pid}_{h}.json"
        path.write_text(json.dumps({"property": self.pid, "key": key, "what": desc,
                                    "no_failing_input_found": no_input, "replay": replay,
                                    "command": f"./check {self.pid} --replay {path}"},
                                   indent=1, default=str))
        self.violations.append((key, desc, str(path), no_input))

    def _gen_disturbed(self):
        """True when coq/Gen no longer holds what this check generated: another process (a check pointed at a
        different checkout through PINT_REPO) regenerated it while this one was evaluating."""
        for rel, text in getattr(self, "_gen_texts", {}).items():
            try:
                if (COQ / rel).read_text() != text:
                    return True
            except OSError:
                return True
        return False

    def finish(self):
        n = int(os.environ.get("VERIF_RERUN", "0"))
        if (self.violations or self.broken) and (getattr(self, "_disturbed", False) or self._gen_disturbed()) and n < 3:
            print(f"NOTE: coq/Gen was regenerated by another process during this run of {self.pid}; running the check again", flush=True)
            os.environ["VERIF_RERUN"] = str(n + 1)
            os.execv(sys.executable, [sys.executable, "-m", "harness.check"] + sys.argv[1:])
        # a broken proof / tie / correspondence with no concrete failing input is still a violation
        if self.broken and not any(not v[3] for v in self.violations):
            self.violation("broken:" + self.broken[0][:80], "no longer shown to hold",
                           {"broken": self.broken, "log": getattr(self, "build_log_tail", "")}, no_input=True)
        for k in self.known_hits:
            print(f"KNOWN-FINDING: property={self.pid} {k['id']}: {k['description']}")
        for key, desc, path, no_input in self.violations:
            print(f"VIOLATION property={self.pid} replay={path}" + (" no-failing-input-found" if no_input else ""))
            print(f"  ({desc})")
        cov = {
            "obligations": self.obligations,
            "discharged": self.discharged,
            "checker_cmd": f"cd {COQ} && make (coqc 8.16.1, full .vo) + Print Assumptions per theorem",
            "trusted_base": self.trusted + sorted({a for v in self.axioms.values() for a in v}),
            "theorems": self.theorems,
            "axioms_per_theorem": {k: v for k, v in self.axioms.items() if v},
            "evaluations": self.evaluations,
            "distinct_nontrivial": len(self.nontrivial),
            "rule": self.rule,
            "samples": self.samples or ["(none)"],
            "distribution": self.dist,
            "known_findings_reproduced": [k["id"] for k in self.known_hits],
            "broken": self.broken,
        }
        cov.update(self.extra)
        ev = {
            "property_id": self.pid, "tier": self.tier, "seed": self.seed, "level": "proof",
            "coverage": cov, "assumptions": self.assumptions,
            "wall_s": round(time.time() - self.t0, 2), "violations": len(self.violations),
        }
        (EVID / f"{self.pid}.json").write_text(json.dumps(ev, indent=1, default=str))
        print(f"{self.pid} [{self.tier}] obligations={self.obligations} discharged={self.discharged} "
              f"evaluations={self.evaluations} nontrivial={len(self.nontrivial)} "
              f"known={len(self.known_hits)} violations={len(self.violations)} wall={ev['wall_s']}s")
        sys.exit(1 if self.violations else 0)
