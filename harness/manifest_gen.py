"""Regenerates MANIFEST.json from the table below (keeps it valid at all times)."""
import json
from pathlib import Path

V = Path(__file__).resolve().parent.parent
props = [json.loads(l) for l in (V / "properties.jsonl").read_text().splitlines() if l.strip()]

# pid -> (technique, level text, level note, design ref)
CLAIMED = {
    "C04": ("Coq proof over gmap-string-Qc container model + differential correspondence (differ inside Coq via vm_compute) + implementation-side law oracles",
            "Group laws, canonical form, ==/hash agreement and hash-cache invariant are Coq theorems over the executable model Model/UC.v for all containers (no size bound); the model is tied to pint by running every container operation of UnitsContainer/ParserHelper/Unit/Quantity on the real classes (exhaustive over 125 small containers x pairs, random beyond) and checking inside Coq that the model returns the same container, and by stateful op sequences with interleaved hash() calls.",
            "Trusted: Coq kernel + vm_compute; harness generators/canonicaliser; ideal (injective) hash abstraction; float exponents only on the dyadic grid. Buckingham-pi basis clause not yet modelled (partial).",
            "DESIGN.md §4 C04"),
}
PENDING = "check not built yet in this round (planned, see DESIGN.md §4); not claimed until its model, theorems and correspondence exist"

m = {
    "version": 1,
    "setup_cmd": "./setup.sh",
    "hooks": {"guard": "PINT_VERIF", "enable": "no source hooks are needed; checks import pint from /repo's working tree with PINT_VERIF=1 set (unused by pint)",
              "baseline_off_cmd": "cd /repo && /venv/bin/python -m pytest -ra -q -p no:cacheprovider --timeout=900 --continue-on-collection-errors",
              "source_commits": [], "add_only": True},
    "engines": [{"name": "coq-model+correspondence", "path": "check", "serves_properties": sorted(CLAIMED),
                 "kind_free_text": "Coq 8.16 theorems over an executable Gallina model of pint; model tied to /repo by translators (coq/Gen regenerated each run) and by differential correspondence evaluated inside Coq"}],
    "checks": [],
    "not_applicable": [],
    "notes": "Every check: ./check <id> [--tier quick|thorough]. Known findings and fixed defects: known_findings.json. See DESIGN.md.",
}
for p in props:
    pid = p["id"]
    if pid in CLAIMED:
        tech, text, note, ref = CLAIMED[pid]
        m["checks"].append({
            "property_id": pid, "quick_cmd": f"./check {pid} --tier quick", "thorough_cmd": f"./check {pid} --tier thorough",
            "evidence_file": f"evidence/{pid}.json", "replay_cmd_template": f"./check {pid} --replay {{path}}",
            "engine": "coq-model+correspondence",
            "level_claimed": {"category": "proof", "text": text, "design_ref": ref},
            "level_note": note, "technique": tech})
    else:
        m["not_applicable"].append({"property_id": pid, "reason": PENDING})
(V / "MANIFEST.json").write_text(json.dumps(m, indent=1) + "\n")
print("claimed", sorted(CLAIMED), "unclaimed", [x["property_id"] for x in m["not_applicable"]])
