"""Regenerates MANIFEST.json from the table below (keeps it valid at all times)."""
import json
from pathlib import Path

V = Path(__file__).resolve().parent.parent
props = [json.loads(l) for l in (V / "properties.jsonl").read_text().splitlines() if l.strip()]

# pid -> (technique, level text, level note, design ref)
TB = "Trusted: Coq 8.16.1 kernel + vm_compute (no native_compute); translators (harness/t*.py, fail-closed) and the correspondence harness (generators, canonicaliser, differ-in-Coq driver); CPython/NumPy semantics are not modelled. Axioms per theorem are listed in the evidence (Print Assumptions)."
CLAIMED = {
    "C01": ("Coq proof (dimensionality homomorphism by linearity of the accumulate-as-you-recurse expansion, for every registry) + T1-regenerated registry + differential correspondence + implementation-side oracles",
            "dim_of is proved a homomorphism (mul/div/pow) into canonical dimension containers for EVERY registry and container; conversion yields DimensionalityError iff dimensionalities differ and a number only if equal; compatibility is an equivalence and a congruence. The model registry is regenerated from /repo's definition files on every run (T1) and compared with pint on every spelling, sampled prefixed strings, unit pairs and random compound units; the biconditional, the four predicate APIs, symmetry/transitivity/congruence and configuration independence are checked on the real registry.",
            TB + " Non-multiplicative units are C06's. The biconditional (succeeds iff same dimensionality) is proved for units with rational factors in registries with non-zero scales (decidable side conditions, checked by computation on the bundled registry); outside them (29 float-factor units) success is covered by correspondence only.",
            "DESIGN.md §4 C01"),
    "C02": ("Coq proof (root-unit expansion is the linear extension of per-definition rows; factor = ratio; identity/inverse/path independence via integer-power laws of Qc) for every registry + T1-regenerated registry + exact differential correspondence in the Fraction registry + oracles",
            "For every registry: pint's accumulate-as-you-recurse root expansion equals the denotation (homomorphism for * / **), the numeric factor of an integral symbolic factor is the product of scale powers, conversion a->b multiplies by factor(a)/factor(b), hence identity, inverse and path independence; side conditions (non-zero scales, exact units) are decided by computation on the registry regenerated from /repo. K: exact factor of every spelling, every ordered same-dimension pair of rational units (cold/warm cache, both directions first), prefix x unit (applied once), compound units, result types, Decimal (1e-24) and float (32 ulp) registries.",
            TB + " The float clause is a test with a stated bound, not a theorem. Units expanding through non-integer powers (computed set, listed in evidence) are outside the exactness clause.",
            "DESIGN.md §4 C02"),
    "C04": ("Coq proof over gmap-string-Qc container model + differential correspondence (differ inside Coq via vm_compute) + implementation-side law oracles",
            "Group laws, canonical form, ==/hash agreement and hash-cache invariant are Coq theorems over the executable model Model/UC.v for all containers (no size bound); the model is tied to pint by running every container operation of UnitsContainer/ParserHelper/Unit/Quantity on the real classes (exhaustive over 125 small containers x pairs, random beyond) and checking inside Coq that the model returns the same container, and by stateful op sequences with interleaved hash() calls.",
            TB + " Ideal (injective) hash abstraction; float exponents only on the dyadic grid. Buckingham pi: every returned monomial is proved dimensionless for all matrices; that they form a basis (independent, n - rank many) is checked per instance by K against an independent rank computation (partial).",
            "DESIGN.md §4 C04"),
    "C16": ("Coq proof over the NumPy unit-bookkeeping tables regenerated from numpy_func.py (T3) + per-class covariance lemmas under explicit homogeneity hypotheses + differential correspondence for every handled ufunc/function/method + covariance oracles",
            "The behaviour tables are regenerated from the source on every run and checked in Coq (finite vm_compute theorem, bounds in the statement) against a hand-written table of dimensional signature classes; per-class covariance is proved for an abstract kernel satisfying the class's homogeneity law; get_op_output_unit and the bare-number rule are proved correct. Every handled name is exercised on the real NumPy/pint with compatible, incompatible and offset units; result units/error classes are compared with the model inside Coq and covariance, DimensionalityError, offset refusal and input immutability are checked on the implementation.",
            TB + " NumPy kernels are trusted; their homogeneity laws are hypotheses of the class lemmas (not axioms). Known findings F13, F30-F35 are listed in known_findings/C16.json.",
            "DESIGN.md §4 C16"),
    "C17": ("Coq proof over an executable model of wraps/check argument bookkeeping (all signatures, spec lists, bindings) + differential correspondence on random signatures/specs/calls in the Fraction registry + independent per-parameter oracles",
            "For every signature, spec list and valid binding the wrapped function observes exactly the per-parameter specification (declared-unit magnitudes, '=A' references, defaults, keywords), independent of delivery mode; error classes, return re-wrapping, decoration-time arity check and check_iff are theorems. The model is compared with pint on thousands of generated plans (incl. malformed) and pint alone is checked against q.to(unit).magnitude computed in a pristine registry.",
            TB + " Conversion is a record field of the model (unit system), instantiated by a 45-name table; keyword-only/*args parameters, arrays and the with_context decorator are not covered. F23/F24 were repaired by fix: commits.",
            "DESIGN.md §4 C17"),
    "C18": ("Coq proof over a model of the data crossing copy/pickle/tuple boundaries and the registry-identity rule + exception table regenerated from the source (T5) + differential correspondence incl. fresh-subprocess unpickling + round-trip oracles",
            "tuple/state round trips, unpickle∘reduce = id whenever names resolve (else UndefinedUnit, never another unit; exactly the prefixed names get registered), exception round trip for every class of the regenerated table (finite vm_compute theorem + general theorem under a decidable guard) and cross-registry refusal are Coq theorems; K runs protocols 0-5, every magnitude type, every exception class, fresh-process unpickling histories, registry pairs (fresh/deep-copied/application/lazy) and cross-registry operators on the real code.",
            TB + " pickle/copy/object identity are CPython's: deepcopy independence and LazyRegistry equivalence are partial theorems, covered beyond that by K only. F17, F36-F38 were repaired by fix: commits.",
            "DESIGN.md §4 C18"),
    "C20": ("Finite Coq theorem (vm_compute over an independently curated standards table, lifted with forallb_forall) about the registry regenerated from the definition files (T1) + general soundness theorem of the row checker + exact correspondence with the real Fraction/float registries",
            "data/standards.tsv (287 unit/constant rows + 32 prefixes, written from SI Brochure / NIST SP 811 / HB 44 / IAU / CODATA 2022, with sources) is compiled to Coq; row_ok is proved sound for every registry (a passed row means exact factor, dimension, symbol, offset), and every row is proved to hold in the model registry regenerated from /repo on each run; K asks the real Fraction registry (exact) and float registry (4 ulp) for every row, all spellings in thorough. A changed constant breaks the theorem; the search names the failing rows with the pint call, expected and observed values.",
            TB + " Correctness of the curated table is the builder's (rows carry their source); 13 rows whose definition goes through a square root are checked in Coq for dimension/symbol only and numerically against pint. F75-F79 (quarter, Réaumur, parsec, missing defining constants, two symbols) were repaired by fix: commits.",
            "DESIGN.md §4 C20"),
    "C09": ("Coq proof over a layout-tree model of the unit formatters (parameters regenerated from the formatter sources, T7) + token-level round trip through the proved tree builder + string-equality correspondence for every unit x spec + real round-trip oracles",
            "layout_denotes: for every format parameterisation, sort function and canonical container the layout denotes exactly the unit (names or symbols, exponents, numerator/denominator); plain formats round-trip at token level through Eval.build for all units with integer exponents (partial: decimal exponents by K only); guarded/refuted theorems for siunitx prefix stripping and colliding composed symbols; format totality. K: model printer == pint's format() for all 417 canonical units x 14 specs and thousands of random compound units/quantities/specs; parse_units(format(u)) == u and Quantity(str(q)) == q in float/Decimal/Fraction registries; formatting never raises nor mutates.",
            TB + " Magnitude text is Python's format (trusted); HTML/LaTeX/siunitx are decoded by independent decoders in the harness; babel localisation out of scope. F4, F18 repaired by fix: commits; F19, F50, F51 known findings.",
            "DESIGN.md §4 C09"),
    "C12": ("Coq proof over an executable state machine of context activation (invariant by induction over all op sequences, defect switches) + exhaustive breadth-first correspondence of op sequences against the real registry + stack/restore/atomicity oracles",
            "active_is_stack (every op sequence, any switch setting), exit/block restores, failed_activation_atomic, shared-context immutability are theorems of the model with the relevant defect switch off and refuted by vm_compute witnesses for the switches that reproduce pint; the harness replays each witness on the real code to select the switch values, then compares every observable after every step of ALL op sequences up to length 3-5 (quick) / 4-7 (thorough) over a pool of 5 contexts plus random length-30 sequences and two registries sharing Context objects.",
            TB + " Single-threaded. Root-unit/conversion memo contents are not in the model state (stale memos surface as answer disagreements). F6 and F110 repaired by fix: commits; F7 (context-blind base-unit cache) and F8 (shared Context rewritten in place) are known findings.",
            "DESIGN.md §4 C12"),
    "C19": ("Coq proof over exact first-order affine forms (variances in Qc) and a token-level mirror of the uncertainty tokenizer + correspondence at token, tree and value level + oracles on conversion/arithmetic/notations",
            "constructor forms agree, accessors, negative error rejected, conversion x -> a*x+b scales variance by a^2 (rel invariant for b=0), first-order arithmetic incl. self-correlation, tokenizer conservative on trigger-free streams and correct on the whole notation family incl. the exponent look-ahead (unc_tokens, full), parse of (v +/- u) unit, join_unc. K: the real tokenizer on thousands of notation instances (types, texts, positions), exact affine conversion for all temperature pairs and sampled unit pairs in the Fraction registry, constructor and shared-variable expression streams within 1e-12 (uncertainties computes in floats: that part is testing).",
            TB + " uncertainties' float propagation and number formatting are trusted. F15, F70, F71 repaired by fix: commits; F72, F73 (offset-unit errors / Measurement lacks offset rules) known findings.",
            "DESIGN.md §4 C19"),
    "C05": ("Coq proof over a branch-for-branch model of __eq__/compare/__hash__ (defect switches) against a physical-value spec, for every registry meeting decidable side conditions + exact correspondence in the Fraction registry + law oracles",
            "eq_spec (== iff same dimensionality and equal converted magnitudes) with reflexive/symmetric/transitive corollaries for multiplicative units and, guarded, for offset units; affine conversion formula; hash respects == (guarded / repaired); trichotomy and order = order of root magnitudes under per-unit positive factors; cross-dimension ordering is Err EDim while == is false; bare-number rule. Refuted by vm_compute witnesses on the regenerated registry where pint deviates. K: all same-dimension unit pairs x 9 magnitude rows (==, !=, 4 orderings, hashes), temperature/delta families, dimensionless families, triples for transitivity, numbers/None, Unit-level ops.",
            TB + " Idealised injective hash. F1 (both-zero shortcut with offset units), F2 (hash differs for equal quantities differing in dimensionless base units), F85 (offset vs delta equality) are listed in known_findings/C05.json unless repaired.",
            "DESIGN.md §4 C05"),
    "C07": ("Coq proof of the parser round trip (parse_render for every expression of Python's grammar, both parenthesis styles, arbitrary redundant groups) over an index-for-index mirror of _build_eval_tree + operator tables regenerated from pint_eval.py (T2) + exhaustive token-level correspondence + string-level oracle (Python's own eval on Quantity leaves) + audit-hook fuzzing",
            "parse_render (full, no size bound), parenthesize_wfp, precedence/associativity corollaries, eval_is_python over the regenerated operator maps, no value on unbalanced parentheses or a dangling operator for ALL token lists, static no-execution scan tie. K: all token sequences up to length 4-6 over small alphabets, all small trees in both styles, random trees to 25 leaves, malformed streams by exception class; string level through parse_expression/Quantity(str)/ParserHelper.from_string in float/Decimal/Fraction registries with whitespace/word/superscript spellings; audit hook over thousands of fuzz parses (a test).",
            TB + " string_preprocessor's regexes and Python's tokenize are not modelled (string-level differential stream only); the dynamic no-execution clause is a test. F16 (juxtaposition before a parenthesised group ignores priority) and F40 (unary minus as x * -1 on Decimal zero) are known findings unless repaired.",
            "DESIGN.md §4 C07"),
    "C10": ("Coq proof over a string-level model of definition lines (split/classify/print round trip, decimal printer, permutation independence of the definition tables, ill-formed never meaningful) + Coq lexer tied to T1 + correspondence on the bundled files and random definition files across permutations, layouts and every loading path",
            "parse_print_def, parse_print_dec (terminating decimals), permuted inputs give equal unit/prefix/dimension tables hence equal meaning for unambiguous names, rejection in every order, mixed references / bad prefix values / unknown modifiers / undefined references / cycles never yield a meaning. K: every spelling of the bundled files (exact), every definition line through the Coq reader vs pint's own statement classes, 20/200 random files x 7 orders x 3 layouts x {filename, lines, load_definitions, define, cold cache, warm cache} x {float, Decimal, Fraction}, 52 fault kinds.",
            TB + " Block directives (@group/@system/@context/@defaults) and @import resolution stay in T1's Python half; flexparser/flexcache/file I/O are exercised by K only. F55-F58 (and F9 seen from the late loading paths) are known findings unless repaired.",
            "DESIGN.md §4 C10"),
}
PENDING = "check not built yet in this round (planned, see DESIGN.md §4); not claimed until its model, theorems and correspondence exist"

m = {
    "version": 1,
    "setup_cmd": "./setup.sh",
    "hooks": {"guard": "PINT_VERIF", "enable": "no source hooks are needed; checks import pint from /repo's working tree with PINT_VERIF=1 set (unused by pint)",
              "baseline_off_cmd": "cd /repo && /venv/bin/python -m pytest -ra -q -p no:cacheprovider --timeout=900 --continue-on-collection-errors",
              "source_commits": [], "add_only": True},
    "engines": [{"name": "coq-model+correspondence", "path": "check", "serves_properties": sorted(CLAIMED),
                 "kind_free_text": "Coq 8.16 theorems over an executable Gallina model of pint; model tied to /repo by translators (coq/Gen regenerated each run) and by differential correspondence evaluated inside Coq"}],
    "checks": [],
    "not_applicable": [],
    "notes": "Every check: ./check <id> [--tier quick|thorough]. Known findings and fixed defects: known_findings.json. See DESIGN.md.",
}
for p in props:
    pid = p["id"]
    if pid in CLAIMED:
        tech, text, note, ref = CLAIMED[pid]
        m["checks"].append({
            "property_id": pid, "quick_cmd": f"./check {pid} --tier quick", "thorough_cmd": f"./check {pid} --tier thorough",
            "evidence_file": f"evidence/{pid}.json", "replay_cmd_template": f"./check {pid} --replay {{path}}",
            "engine": "coq-model+correspondence",
            "level_claimed": {"category": "proof", "text": text, "design_ref": ref},
            "level_note": note, "technique": tech})
    else:
        m["not_applicable"].append({"property_id": pid, "reason": PENDING})
(V / "MANIFEST.json").write_text(json.dumps(m, indent=1) + "\n")
print("claimed", sorted(CLAIMED), "unclaimed", [x["property_id"] for x in m["not_applicable"]])
