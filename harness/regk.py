"""Shared helpers for the registry-level correspondence (C01, C02, C08, C20 …)."""
from __future__ import annotations

import logging
from decimal import Decimal
from fractions import Fraction as F

from .common import coq_list, coq_opt, coq_q, coq_str, coq_uc

logging.getLogger("pint").setLevel(logging.ERROR)

HEADER = ("From PintV Require Import Model.UC Model.Eval Model.Registry Model.RegistryRun "
          "Gen.DefaultDefs Gen.DefaultReg.\nOpen Scope string_scope.\n"
          "Definition ok (c : regcase) : bool := reg_ok default_reg c.\n")


def registry(nit=F, **kw):
    import pint
    return pint.UnitRegistry(non_int_type=nit, cache_folder=None, **kw)


def ucd(container):
    """UnitsContainer -> {name: Fraction}"""
    return {k: F(v) for k, v in container.items()}


def mkuc(ureg, d):
    return ureg.UnitsContainer({k: (int(v) if F(v).denominator == 1 else ureg.non_int_type(v) if ureg.non_int_type is not float else float(v))
                                for k, v in d.items()})


def outcome_of_number(x):
    if isinstance(x, (int, F)) and not isinstance(x, bool):
        return f"(OExact {coq_q(F(x))})"
    if isinstance(x, Decimal):
        return f"(OExact {coq_q(F(x))})"
    return "OFloat"


def outcome_of_exc(e):
    import pint
    if isinstance(e, pint.errors.DimensionalityError):
        return "ODimErr"
    if isinstance(e, pint.errors.UndefinedUnitError):
        return "OUndefined"
    if isinstance(e, pint.errors.OffsetUnitCalculusError):
        return "OOffsetErr"
    return "OOtherErr"


def spellings(ureg):
    """every key of the unit table of a FRESH registry (no lazily added prefixed names yet)"""
    lazy = getattr(ureg, "_lazy_units", ())     # prefixed names registered while the registry was built are not spellings
    return [k for k in ureg._units.keys() if k not in lazy]


def canonical_names(ureg):
    seen, out = set(), []
    lazy = getattr(ureg, "_lazy_units", ())
    for d in ureg._units.values():
        if d.name not in seen and d.name not in lazy:
            seen.add(d.name)
            out.append(d.name)
    return out


def multiplicative(ureg, name):
    return ureg._units[name].is_multiplicative


def case_dim(ureg, d):
    try:
        r = ucd(ureg.get_dimensionality(mkuc(ureg, d)))
        return f"RDimOf {coq_uc(d)} {coq_opt(coq_uc(r))}"
    except Exception:
        return f"RDimOf {coq_uc(d)} None"


def case_root(ureg, d):
    try:
        f, b = ureg._get_root_units(mkuc(ureg, d), check_nonmult=False)
        return f"RRoot {coq_uc(d)} {outcome_of_number(f)} {coq_opt(coq_uc(ucd(b)))}"
    except Exception as e:
        return f"RRoot {coq_uc(d)} {outcome_of_exc(e)} None"


def case_factor(ureg, ds, dd):
    import pint
    try:
        f = ureg._get_conversion_factor(mkuc(ureg, ds), mkuc(ureg, dd))
        if isinstance(f, pint.errors.DimensionalityError):
            o = "ODimErr"
        else:
            o = outcome_of_number(f)
    except Exception as e:
        o = outcome_of_exc(e)
    return f"RFactor {coq_uc(ds)} {coq_uc(dd)} {o}"


def case_name(ureg, s):
    try:
        r = ureg.get_name(s)
        return f"RName {coq_str(s)} (Some {coq_str(r)})"
    except Exception:
        return f"RName {coq_str(s)} None"


def case_symbol(ureg, s):
    try:
        r = ureg.get_symbol(s)
        return f"RSymbol {coq_str(s)} (Some {coq_str(r)})"
    except Exception:
        return f"RSymbol {coq_str(s)} None"


def case_parse(ureg, s):
    r = ureg.parse_unit_name(s)
    return f"RParse {coq_str(s)} {coq_list(['(' + coq_str(p) + ', ' + coq_str(u) + ')' for p, u, _ in r])}"


# ---------------------------------------------------------------- randomly generated registries
def gen_definition_lines(rng, n_units=18):
    """A random, well-formed definition file: base dimensions, a derived-dimension DAG, prefixes,
    units with rational decimal factors, symbols, aliases, forward references."""
    dims = ["[alpha]", "[beta]", "[gamma]", "[delta]"][: rng.randint(2, 4)]
    lines = ["# generated", "kilo- = 1e3 = k-", "milli- = 1e-3 = m-", "mega- = 1e6 = M-", f"demi- = 0.5 = _ = semi-"]
    base = []
    for i, d in enumerate(dims):
        nm = f"b{i}unit"
        lines.append(f"{nm} = {d} = b{i}" + (f" = base{i}" if rng.random() < 0.5 else ""))
        base.append(nm)
    # derived dimensions, possibly declared top-down (a derived dimension before the one it refers to),
    # and units declared directly on a derived dimension
    ddims = [f"[speedlike] = {dims[0]} / {dims[1]}", f"[accel] = [speedlike] / {dims[1]}"]
    if len(dims) > 2:
        ddims.append(f"[forcelike] = [accel] * {dims[2]}")
        ddims.append("[presslike] = [forcelike] / " + dims[0] + " ** 2")
    rng.shuffle(ddims)
    dunits = [f"gal_x = [accel] = Gx", f"speed_x = [speedlike]"]
    if len(dims) > 2 and rng.random() < 0.7:
        dunits.append("press_x = [presslike] = Px")
    mix = ddims + dunits
    rng.shuffle(mix)
    lines += mix
    lines.append("plain = []")
    names = list(base)
    defs = []
    fwd_targets = set()
    for j in range(n_units):
        nm = f"u{j}x"
        k = rng.randint(1, 3)
        # a unit that is the target of a forward reference may only refer to base units (keeps the graph acyclic)
        pool = list(base) if j in fwd_targets else names + ([f"u{j + 1}x"] if j + 1 < n_units and rng.random() < 0.15 else [])
        refs = rng.sample(pool, min(k, len(pool)))
        if f"u{j + 1}x" in refs:
            fwd_targets.add(j + 1)
        fac = rng.choice(["2", "0.5", "1.25", "12", "3e2", "1e-3", "7", "0.3048", "1/3", "2**3", "5/4"])
        rhs = fac
        for r in refs:
            e = rng.choice([1, 1, 1, 2, -1, -2])
            pre = rng.choice(["", "", "kilo", "milli", "k"]) if r in names and not r.startswith("b") else rng.choice(["", "kilo"])
            if pre == "k" and not (r in names):
                pre = ""
            spelled = pre + r
            if pre == "k":       # symbol prefix needs a symbol-ish spelling; use the unit's alias when it has one
                spelled = "kilo" + r
            rhs += f" * {spelled}" if e == 1 else (f" / {spelled}" if e == -1 else f" * {spelled} ** {e}")
        sym = f"s{j}" if rng.random() < 0.6 else "_"
        al = [f"al{j}"] if rng.random() < 0.4 else []
        line = f"{nm} = {rhs}"
        if sym != "_" or al:
            line += f" = {sym}" + "".join(f" = {a}" for a in al)
        defs.append(line)
        names.append(nm)
    rng.shuffle(defs)          # order must not matter (forward references are resolved lazily)
    return lines + defs


def load_generated(lines, nit=F):
    """-> (pint registry, coq term of type list rawdef) from definition lines, via T1's reader"""
    import os
    import shutil
    import tempfile
    import pint
    from . import t1_defs
    d = tempfile.mkdtemp(prefix="pintverif_")
    try:
        p = os.path.join(d, "gen.txt")
        with open(p, "w", encoding="utf-8") as f:
            f.write("\n".join(lines) + "\n")
        parsed = t1_defs.parse_file(__import__("pathlib").Path(p))
        ureg = pint.UnitRegistry(p, non_int_type=nit, cache_folder=None)
    finally:
        shutil.rmtree(d, ignore_errors=True)
    raw = coq_list([t1_defs.coq_rawdef(x) for x in parsed["defs"]])
    return ureg, raw


def gen_header(raw, ident="greg"):
    return ("From PintV Require Import Model.UC Model.Eval Model.Registry Model.RegistryRun.\nOpen Scope string_scope.\n"
            f"Definition {ident} : reg := match elab {raw} with Ok r => r | Err _ => empty_reg end.\n"
            f"Definition ok (c : regcase) : bool := reg_ok {ident} c.\n")


def generated_stream(ck, rng, n_regs, oracle, tag):
    """Randomly generated registries: model (Coq `load` of T1's reading of the same text) vs pint,
    plus the C01/C02 oracles on the generated registry itself. Returns (cases, disagreements, first)."""
    import pint
    total, nbad, first = 0, 0, None
    for gi in range(n_regs):
        lines = gen_definition_lines(rng)
        ureg, raw = load_generated(lines)
        sp = spellings(ureg)
        cases, desc = [], []
        for s in sp:
            cases.append(case_dim(ureg, {s: F(1)})); desc.append({"dim_of": s})
            cases.append(case_root(ureg, {s: F(1)})); desc.append({"root_of": s})
        can = canonical_names(ureg)
        dims = {n: frozenset(ucd(ureg.get_dimensionality(mkuc(ureg, {n: F(1)}))).items()) for n in can}
        for _ in range(80):
            a, b = rng.choice(sp), rng.choice(sp)
            cases.append(case_factor(ureg, {a: F(1)}, {b: F(1)})); desc.append({"factor": [a, b]})
            ca, cb = ureg.get_name(a), ureg.get_name(b)
            same = dims.get(ca) == dims.get(cb)
            try:
                x = ureg.convert(F(1), a, b)
                okc = True
            except pint.errors.DimensionalityError:
                okc = False
            rp = {"definitions": lines, "a": a, "b": b}
            oracle(okc == same, f"generated:{tag}:iff", f"generated registry: convert {a}->{b} succeeds={okc}, same dimensionality={same}", rp)
            if okc:
                y = ureg.convert(F(1), b, a)
                oracle(x * y == 1 and type(x) in (F, int), f"generated:{tag}:inverse", f"generated registry: conv(a,b)*conv(b,a) = {x * y}", rp)
                fa = F(ureg._get_root_units(mkuc(ureg, {a: F(1)}))[0])
                fb = F(ureg._get_root_units(mkuc(ureg, {b: F(1)}))[0])
                oracle(x == fa / fb, f"generated:{tag}:ratio", f"generated registry: conv(a,b) = {x} != {fa / fb}", rp)
                c = rng.choice([n for n in sp if dims.get(ureg.get_name(n)) == dims.get(ca)])
                oracle(ureg.convert(ureg.convert(F(3), a, c), c, b) == ureg.convert(F(3), a, b), f"generated:{tag}:path", "generated registry: a->c->b differs from a->b", dict(rp, c=c))
            ck.case(key=("gen", tag, gi, a, b), sample={"generated_registry_lines": lines[:8]} if gi == 0 and _ == 0 else None)
        # units declared on derived dimensions: what the file says, independent of the order of the declarations
        written = {"gal_x": ({"b0unit": 1, "b1unit": -2}, "[accel]"), "speed_x": ({"b0unit": 1, "b1unit": -1}, "[speedlike]"),
                   "press_x": ({"b2unit": 1, "b0unit": -1, "b1unit": -2}, "[presslike]")}
        for nm, (expansion, dname) in written.items():
            if nm not in ureg:
                continue
            rp = {"definitions": lines, "unit": nm}
            try:
                x = ureg.convert(F(1), nm, mkuc(ureg, {k: F(v) for k, v in expansion.items()}))
            except Exception as e:
                x = type(e).__name__
            oracle(x == 1, f"generated:{tag}:derived-dimension", f"generated registry: 1 {nm} -> {expansion} gave {x}; the file declares {nm} on {dname}", rp)
            q = ureg.Quantity(F(1), mkuc(ureg, {k: F(v) for k, v in expansion.items()}))
            oracle(q.check(dname) and ureg.Quantity(F(1), nm).check(dname), f"generated:{tag}:derived-dimension-check",
                   f"generated registry: check({dname!r}) is False for a quantity of that dimension", rp)
            cases.append(case_factor(ureg, {nm: F(1)}, {k: F(v) for k, v in expansion.items()})); desc.append({"factor": [nm, str(expansion)]})
        bad = ck.coq_mismatches(f"gen{tag}{gi}", gen_header(raw), cases, "ok")
        total += len(cases)
        if bad is None:
            nbad += 1
            first = first or {"registry": lines, "coq": "evaluation failed"}
        elif bad:
            nbad += len(bad)
            first = first or {"registry": lines, "case": desc[bad[0]], "coq_case": cases[bad[0]]}
        ck.count("generated registries")
    return total, nbad, first


# ---------------------------------------------------------------- definitions rewritten by a context
def _load_text(lines, nit=F):
    import os
    import shutil
    import tempfile
    import pint
    d = tempfile.mkdtemp(prefix="pintverif_")
    try:
        p = os.path.join(d, "gen.txt")
        with open(p, "w", encoding="utf-8") as f:
            f.write("\n".join(lines) + "\n")
        return pint.UnitRegistry(p, non_int_type=nit, cache_folder=None)
    finally:
        shutil.rmtree(d, ignore_errors=True)


def redefinition_stream(ck, rng, n_regs, oracle, tag):
    """A generated definition file whose `@context` block rewrites one unit (same references, another factor).
    While that context is active the written definitions in force are those of the file with the unit's line
    replaced: registry A (file + context, context active) must convert like registry B (file with the line
    replaced, no context), whichever spellings - prefixed, plural, symbol - were already resolved on A before
    the context was switched on; B is itself compared with the Coq model `elab` of T1's reading of B's text.
    After the block A must convert like the unmodified file again."""
    import pint
    total, nbad, first = 0, 0, None
    for gi in range(n_regs):
        lines = gen_definition_lines(rng)
        cand = [i for i, l in enumerate(lines) if l.startswith("u") and "x = " in l]
        i = rng.choice(cand)
        parts = lines[i].split(" = ")
        nm, rhs = parts[0], parts[1]
        toks = rhs.split(" ")
        newfac = rng.choice([f for f in ["1200/3937", "9", "0.25", "1.5", "3e-2"] if f != toks[0]])
        newrhs = " ".join([newfac] + toks[1:])
        ctx = ["@context redef", f"    {nm} = {newrhs}", "@end"]
        lines_b = list(lines)
        lines_b[i] = " = ".join([nm, newrhs] + parts[2:])
        A = _load_text(lines + ctx)
        O = _load_text(lines)
        B, raw_b = load_generated(lines_b)
        sp = spellings(B)
        pre = ["kilo", "milli", "mega", "demi", "semi", "k", "m", "M"]
        pool = list(sp)
        for s in sp:
            for p in pre:
                for pl in ("", "s"):
                    c = p + s + pl
                    try:
                        B.get_name(c)
                        pool.append(c)
                    except Exception:
                        pass
        # the spellings that reach the rewritten unit (directly or through other definitions)
        def reaches(s):
            return F(B._get_root_units(mkuc(B, {s: F(1)}))[0]) != F(O._get_root_units(mkuc(O, {s: F(1)}))[0])
        hot = [s for s in pool if reaches(s)]
        warmed = rng.sample(hot, min(len(hot), rng.randint(0, 8))) + rng.sample(pool, 4)
        for s in warmed:                       # resolved while the context is NOT active
            A.get_name(s)
            if rng.random() < 0.5:
                A._get_root_units(mkuc(A, {s: F(1)}))
        rp0 = {"definitions": lines, "context": ctx, "resolved_before_the_context": warmed}

        def conv(reg, a, b):
            try:
                return reg.convert(F(3), a, b)
            except pint.errors.DimensionalityError:
                return "DimensionalityError"

        pairs = [(rng.choice(hot or pool), rng.choice(pool)) if rng.random() < 0.7 else (rng.choice(pool), rng.choice(hot or pool)) for _ in range(60)]
        cases, desc = [], []
        with A.context("redef"):
            for a, b in pairs:
                x, y = conv(A, a, b), conv(B, a, b)
                oracle(x == y and type(x) is type(y), f"redefined:{tag}:factor",
                       f"inside a context that rewrites {nm}: 3 {a} -> {b} = {x}, but the definitions in force give {y}", dict(rp0, a=a, b=b))
                # the model is given what pint answered inside the context, and the text of B
                o = "ODimErr" if x == "DimensionalityError" else outcome_of_number(F(x) / 3)
                cases.append(f"RFactor {coq_uc({a: F(1)})} {coq_uc({b: F(1)})} {o}"); desc.append({"factor_in_context": [a, b]})
                ck.case(key=("redef", tag, gi, a, b))
        for a, b in pairs[:20]:
            x, y = conv(A, a, b), conv(O, a, b)
            oracle(x == y, f"redefined:{tag}:after", f"after leaving the context that rewrote {nm}: 3 {a} -> {b} = {x}, the file says {y}", dict(rp0, a=a, b=b))
        bad = ck.coq_mismatches(f"redef{tag}{gi}", gen_header(raw_b), cases, "ok")
        total += len(cases)
        if bad is None:
            nbad += 1
            first = first or {"registry": lines_b, "coq": "evaluation failed"}
        elif bad:
            nbad += len(bad)
            first = first or dict(rp0, case=desc[bad[0]], coq_case=cases[bad[0]])
        # a SECOND context object that rewrites the same unit with another factor (an anonymous Context, or a new
        # context registered under the same name after remove_context): its own definition is the one in force
        # (integer factors only: Context.redefine() parses its text with a float parser whatever the registry's
        #  non_int_type is — known finding F123, probed separately below)
        fac2 = rng.choice([f for f in ["11", "7/3", "0.125", "40"] if f not in (toks[0], newfac)])
        rhs2 = " ".join([fac2] + toks[1:])
        lines_c = list(lines)
        lines_c[i] = " = ".join([nm, rhs2] + parts[2:])
        C, raw_c = load_generated(lines_c)
        # the first context is removed and a NEW context with the same name, written as definition text (read in the
        # registry's numeric type), rewrites the unit differently
        how = "same-name"
        A.remove_context("redef")
        A.load_definitions(["@context redef", f"    {nm} = {rhs2}", "@end"])
        enter = "redef"
        rp1 = dict(rp0, second_context={"how": how, "redefinition": f"{nm} = {rhs2}"})
        cases2 = []
        with A.context(enter):
            for a, b in pairs[:30]:
                x, y = conv(A, a, b), conv(C, a, b)
                oracle(x == y and type(x) is type(y), f"redefined:{tag}:second-context",
                       f"a second context ({how}) rewrites {nm} = {rhs2} after one that wrote {newrhs}: 3 {a} -> {b} = {x}, its own definition gives {y}", dict(rp1, a=a, b=b))
                o = "ODimErr" if x == "DimensionalityError" else outcome_of_number(F(x) / 3)
                cases2.append(f"RFactor {coq_uc({a: F(1)})} {coq_uc({b: F(1)})} {o}")
                ck.case(key=("redef2", tag, gi, a, b))
            # the expansion down to base units sees the definition in force whatever the target is
            for a in rng.sample(hot, min(len(hot), 25)):
                ra, rc = A._get_root_units(mkuc(A, {a: F(1)})), C._get_root_units(mkuc(C, {a: F(1)}))
                oracle(ra[0] == rc[0] and ucd(ra[1]) == ucd(rc[1]), f"redefined:{tag}:second-context-root",
                       f"a second context ({how}) rewrites {nm} = {rhs2} after one that wrote {newrhs}: root units of {a} = {ra[0]} {dict(ra[1])}, its own definition gives {rc[0]} {dict(rc[1])}", dict(rp1, a=a))
                ck.case(key=("redef2root", tag, gi, a))
        bad2 = ck.coq_mismatches(f"redefb{tag}{gi}", gen_header(raw_c), cases2, "ok")
        total += len(cases2)
        if bad2 is None:
            nbad += 1
            first = first or {"registry": lines_c, "coq": "evaluation failed"}
        elif bad2:
            nbad += len(bad2)
            first = first or dict(rp1, coq_case=cases2[bad2[0]])
        # F123 probe: a decimal factor given to Context.redefine() programmatically, Fraction registry
        c3 = pint.Context()
        c3.redefine(f"{nm} = 2.5 * " + " ".join(toks[2:]) if len(toks) > 2 else f"{nm} = 2.5")
        try:
            with A.context(c3):
                x = A.convert(F(1), nm, nm)
                f3 = A._get_root_units(mkuc(A, {nm: F(1)}))[0]
            oracle(isinstance(f3, (int, F)) and not isinstance(f3, bool), "programmatic-redefinition-float",
                   f"Context.redefine('{nm} = 2.5 ...') in a Fraction registry gives {nm} the root factor {f3!r} ({type(f3).__name__})", dict(rp0, redefinition=f"{nm} = 2.5 * ..."))
        except Exception as e:
            oracle(False, "programmatic-redefinition-float", f"Context.redefine('{nm} = 2.5 ...') in a Fraction registry: {type(e).__name__}", dict(rp0))
        ck.count("generated registries with a rewriting context")
    return total, nbad, first


# ---------------------------------------------------------------- aliases added at run time, after earlier lookups
def runtime_alias_stream(ck, rng, n_regs, oracle, tag):
    """A registry that was already asked about the prefixed / plural spellings of a name that did not exist yet,
    and is then given `@alias unit = name` lines and new unit definitions (decimal and ratio factors) through
    define() at run time, must convert those spellings like a registry that read the same lines in its definition
    file (B) — whose factors are compared with the Coq model of B's text. Exact type included (Fraction registry)."""
    import pint
    total, nbad, first = 0, 0, None
    for gi in range(n_regs):
        lines = gen_definition_lines(rng)
        cand = [l.split(" = ")[0] for l in lines if l.startswith("u") and "x = " in l]
        added = []
        for j, nm in enumerate(rng.sample(cand, min(2, len(cand)))):
            added.append((nm, f"zq{gi}n{j}"))
        A = _load_text(lines)
        alias_lines = [f"@alias {nm} = {al}" for nm, al in added]
        # ... and brand-new UNITS written with decimal / ratio factors, given to define() at run time
        unit_names = []
        for j in range(rng.randint(1, 2)):
            ref = rng.choice(cand)
            fac = rng.choice(["1.7018", "1 / 3", "0.3048", "2.5e-3", "7 / 12", "1.1"])
            un = f"zu{gi}n{j}"
            alias_lines.append(f"{un} = {fac} * {ref} = zs{gi}n{j}")
            unit_names.append(un)
            added.append((ref, un))
            added.append((ref, f"zs{gi}n{j}"))
        B, raw_b = load_generated(lines + alias_lines)
        pre = ["", "kilo", "milli", "mega", "demi", "semi", "k", "m", "M"]
        derived = [p + al + pl for _, al in added for p in pre for pl in ("", "s")]
        sp = spellings(A)
        warmed = []
        for c in rng.sample(derived, rng.randint(0, len(derived))):       # asked BEFORE the alias exists
            how = rng.choice(["in", "get_name", "parse_units", "parse_unit_name", "convert"])
            try:
                if how == "in":
                    c in A
                elif how == "get_name":
                    A.get_name(c)
                elif how == "parse_units":
                    A.parse_units(c)
                elif how == "parse_unit_name":
                    A.parse_unit_name(c)
                else:
                    A.convert(F(1), c, rng.choice(sp))
            except Exception:
                pass
            warmed.append([how, c])
        for _ in range(6):
            try:
                A.convert(F(1), rng.choice(sp), rng.choice(sp))
            except Exception:
                pass
        # the lines are given to define() one at a time, in random order, and the spellings derived from a line's
        # new names are asked right after that line (a later definition may reset memos and hide a stale entry)
        order = list(alias_lines)
        rng.shuffle(order)
        rp0 = {"definitions": lines, "asked_before_the_alias": warmed, "then_defined": order}
        cases, desc = [], []

        def compare(c, upto):
            tgt = rng.choice([nm for nm, al in added if al in c] + [rng.choice(sp)])
            res = []
            for reg in (A, B):
                try:
                    res.append(reg.convert(F(3), c, tgt))
                except pint.errors.DimensionalityError:
                    res.append("DimensionalityError")
                except pint.errors.UndefinedUnitError:
                    res.append("UndefinedUnitError")
            x, y = res
            oracle(x == y and type(x) is type(y), f"runtime-alias:{tag}:factor",
                   f"after `{'; '.join(upto)}` at run time: 3 {c} -> {tgt} = {x}; a registry that read the same lines from its file gives {y}", dict(rp0, then_defined=list(upto), a=c, b=tgt))
            if not isinstance(x, str):
                cases.append(f"RFactor {coq_uc({c: F(1)})} {coq_uc({tgt: F(1)})} {outcome_of_number(F(x) / 3)}"); desc.append({"factor_after_runtime_alias": [c, tgt]})
            elif x == "DimensionalityError":
                cases.append(f"RFactor {coq_uc({c: F(1)})} {coq_uc({tgt: F(1)})} ODimErr"); desc.append({"factor_after_runtime_alias": [c, tgt]})
            ck.case(key=("rtalias", tag, gi, c, tgt))

        done = []
        for l in order:
            A.define(l)
            done.append(l)
            parts = [x.strip() for x in l.replace("@alias ", "").split(" = ")]
            new_names = [parts[-1]] if l.startswith("@alias") else [parts[0]] + parts[2:]
            for c in derived:
                if any(c == p_ + n + pl for n in new_names for p_ in pre for pl in ("", "s")):
                    compare(c, done)
        for c in rng.sample(derived, min(len(derived), 12)):     # and once more when everything is defined
            compare(c, done)
        bad = ck.coq_mismatches(f"rtalias{tag}{gi}", gen_header(raw_b), cases, "ok")
        total += len(cases)
        if bad is None:
            nbad += 1
            first = first or {"registry": lines + alias_lines, "coq": "evaluation failed"}
        elif bad:
            nbad += len(bad)
            first = first or dict(rp0, case=desc[bad[0]], coq_case=cases[bad[0]])
        ck.count("generated registries with run-time aliases")
    return total, nbad, first
