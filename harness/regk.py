"""Shared helpers for the registry-level correspondence (C01, C02, C08, C20 …)."""
from __future__ import annotations

import logging
from decimal import Decimal
from fractions import Fraction as F

from .common import coq_list, coq_opt, coq_q, coq_str, coq_uc

logging.getLogger("pint").setLevel(logging.ERROR)

HEADER = ("From PintV Require Import Model.UC Model.Eval Model.Registry Model.RegistryRun "
          "Gen.DefaultDefs Gen.DefaultReg.\nOpen Scope string_scope.\n"
          "Definition ok (c : regcase) : bool := reg_ok default_reg c.\n")


def registry(nit=F, **kw):
    import pint
    return pint.UnitRegistry(non_int_type=nit, cache_folder=None, **kw)


def ucd(container):
    """UnitsContainer -> {name: Fraction}"""
    return {k: F(v) for k, v in container.items()}


def mkuc(ureg, d):
    return ureg.UnitsContainer({k: (int(v) if F(v).denominator == 1 else ureg.non_int_type(v) if ureg.non_int_type is not float else float(v))
                                for k, v in d.items()})


def outcome_of_number(x):
    if isinstance(x, (int, F)) and not isinstance(x, bool):
        return f"(OExact {coq_q(F(x))})"
    if isinstance(x, Decimal):
        return f"(OExact {coq_q(F(x))})"
    return "OFloat"


def outcome_of_exc(e):
    import pint
    if isinstance(e, pint.errors.DimensionalityError):
        return "ODimErr"
    if isinstance(e, pint.errors.UndefinedUnitError):
        return "OUndefined"
    if isinstance(e, pint.errors.OffsetUnitCalculusError):
        return "OOffsetErr"
    return "OOtherErr"


def spellings(ureg):
    """every key of the unit table of a FRESH registry (no lazily added prefixed names yet)"""
    return [k for k in ureg._units.keys()]


def canonical_names(ureg):
    seen, out = set(), []
    for d in ureg._units.values():
        if d.name not in seen:
            seen.add(d.name)
            out.append(d.name)
    return out


def multiplicative(ureg, name):
    return ureg._units[name].is_multiplicative


def case_dim(ureg, d):
    try:
        r = ucd(ureg.get_dimensionality(mkuc(ureg, d)))
        return f"RDimOf {coq_uc(d)} {coq_opt(coq_uc(r))}"
    except Exception:
        return f"RDimOf {coq_uc(d)} None"


def case_root(ureg, d):
    try:
        f, b = ureg._get_root_units(mkuc(ureg, d), check_nonmult=False)
        return f"RRoot {coq_uc(d)} {outcome_of_number(f)} {coq_opt(coq_uc(ucd(b)))}"
    except Exception as e:
        return f"RRoot {coq_uc(d)} {outcome_of_exc(e)} None"


def case_factor(ureg, ds, dd):
    import pint
    try:
        f = ureg._get_conversion_factor(mkuc(ureg, ds), mkuc(ureg, dd))
        if isinstance(f, pint.errors.DimensionalityError):
            o = "ODimErr"
        else:
            o = outcome_of_number(f)
    except Exception as e:
        o = outcome_of_exc(e)
    return f"RFactor {coq_uc(ds)} {coq_uc(dd)} {o}"


def case_name(ureg, s):
    try:
        r = ureg.get_name(s)
        return f"RName {coq_str(s)} (Some {coq_str(r)})"
    except Exception:
        return f"RName {coq_str(s)} None"


def case_symbol(ureg, s):
    try:
        r = ureg.get_symbol(s)
        return f"RSymbol {coq_str(s)} (Some {coq_str(r)})"
    except Exception:
        return f"RSymbol {coq_str(s)} None"


def case_parse(ureg, s):
    r = ureg.parse_unit_name(s)
    return f"RParse {coq_str(s)} {coq_list(['(' + coq_str(p) + ', ' + coq_str(u) + ')' for p, u, _ in r])}"
