"""setup: regenerate Gen, build every .v (full .vo), fail on any error."""
import sys
from .common import Check, COQ, sh, NCPU

ck = Check("SETUP")
targets = sorted(str(p.relative_to(COQ))[:-2] + ".vo" for p in COQ.rglob("*.v"))
ok = ck.coq_build([])          # generators + Makefile
if ck.broken:
    print("setup: ", ck.broken); sys.exit(1)
targets = sorted(str(p.relative_to(COQ))[:-2] + ".vo" for p in COQ.rglob("*.v"))
rc, out = sh(f"timeout 3000 make -j{NCPU} " + " ".join(targets), cwd=COQ, timeout=3100)
print(out[-3000:])
sys.exit(rc)
