"""T1 — independent reader of pint's definition files (no pint import).

Python half: resolves @import, strips comments, recognises blocks, splits definition lines at
'=' and tokenises right-hand sides with its own lexer.  Interpretation (numbers, expression
trees, the adders) happens in Coq (Model/Registry.v [elab]).  Fail-closed: anything it does
not recognise raises T1Error.
"""
from __future__ import annotations

import re
from pathlib import Path

from .common import REPO, coq_list, coq_str


class T1Error(Exception):
    pass


_TOK = re.compile(
    r"\s*(?:(?P<num>(?:\d[\d_]*\.?\d*|\.\d+)(?:[eE][+-]?\d+)?)"
    r"|(?P<name>\[[^\]\s]*\]|[^\W\d][\w]*)"
    r"|(?P<op>\*\*|//|[-+*/()%^]))",
    re.UNICODE,
)


def lex(s: str):
    """expression text -> list of (kind, text); '^' is '**' (string_preprocessor); ' per ' is '/'."""
    s = re.sub(r"\bper\b", "/", s)
    out, i, s = [], 0, s.strip()
    while i < len(s):
        m = _TOK.match(s, i)
        if not m or m.end() == i:
            raise T1Error(f"cannot tokenise {s!r} at {i}")
        i = m.end()
        if m.group("num") is not None:
            out.append(("num", m.group("num")))
        elif m.group("name") is not None:
            out.append(("name", m.group("name")))
        else:
            op = m.group("op")
            out.append(("op", "**" if op == "^" else op))
    return out


def coq_toks(toks):
    m = {"num": "TNum", "name": "TName", "op": "TOp"}
    return coq_list([f"{m[k]} {coq_str(t)}" for k, t in toks] + ["TEnd"])


def strip_comment(line: str) -> str:
    i = line.find("#")
    return (line if i < 0 else line[:i]).rstrip()


def read_lines(path: Path, seen=None):
    """yield (file, lineno, text) with @import resolved relative to the importing file"""
    seen = seen or set()
    if path in seen:
        raise T1Error(f"import cycle at {path}")
    seen = seen | {path}
    for no, raw in enumerate(path.read_text(encoding="utf-8").splitlines(), 1):
        line = strip_comment(raw)
        if not line.strip():
            continue
        if line.startswith("@import"):
            yield from read_lines((path.parent / line[len("@import"):].strip()).resolve(), seen)
        else:
            yield (path.name, no, line)


def parse_file(path: Path):
    """-> dict(defs=[...], groups=[...], systems=[...], contexts=[...], defaults={...})"""
    defs, groups, systems, contexts, defaults = [], [], [], [], {}
    block = None
    for fname, no, line in read_lines(path):
        s = line.strip()
        if block is not None:
            if s == "@end":
                block = None
                continue
            kind = block["kind"]
            if kind == "defaults":
                k, v = (p.strip() for p in s.split("="))
                defaults[k] = v
            elif kind == "group":
                if "=" not in s:
                    block["units"].append(s)       # bare unit name
                else:
                    d = unit_line(s, fname, no)
                    defs.append(d)
                    block["units"].append(d["fields"][0])
            elif kind == "system":
                block["rules"].append(s)
            elif kind == "context":
                block["lines"].append(s)
            continue
        if s.startswith("@defaults"):
            block = {"kind": "defaults"}
        elif s.startswith("@group"):
            m = re.fullmatch(r"@group\s+(\w+)(?:\s+using\s+(.*))?", s)
            if not m:
                raise T1Error(f"{fname}:{no}: bad group header {s!r}")
            block = {"kind": "group", "name": m.group(1),
                     "using": [u.strip() for u in (m.group(2) or "").split(",") if u.strip()], "units": []}
            groups.append(block)
        elif s.startswith("@system"):
            m = re.fullmatch(r"@system\s+(\w+)(?:\s+using\s+(.*))?", s)
            if not m:
                raise T1Error(f"{fname}:{no}: bad system header {s!r}")
            block = {"kind": "system", "name": m.group(1),
                     "using": [u.strip() for u in (m.group(2) or "").split(",") if u.strip()], "rules": []}
            systems.append(block)
        elif s.startswith("@context"):
            block = {"kind": "context", "header": s, "lines": []}
            contexts.append(block)
        elif s.startswith("@alias "):
            name, *aliases = s[len("@alias "):].split("=")
            defs.append({"kind": "alias", "name": name.strip(), "aliases": [a.strip() for a in aliases]})
        elif s.startswith("@"):
            raise T1Error(f"{fname}:{no}: unknown directive {s!r}")
        elif s.startswith("[") and "=" not in s:
            defs.append({"kind": "dim", "name": s})
        elif s.startswith("["):
            name, value, *rest = s.split("=")
            if rest:
                raise T1Error(f"{fname}:{no}: derived dimension with aliases")
            defs.append({"kind": "ddim", "name": name.strip(), "rhs": lex(value)})
        elif "=" in s:
            fields = [p.strip() for p in s.split("=")]
            if fields[0].endswith("-"):
                defs.append({"kind": "prefix", "fields": [fields[0]] + fields[2:], "value": lex(fields[1])})
            else:
                defs.append(unit_line(s, fname, no))
        else:
            raise T1Error(f"{fname}:{no}: unrecognised line {s!r}")
    if block is not None:
        raise T1Error("unterminated block")
    return {"defs": defs, "groups": groups, "systems": systems, "contexts": contexts, "defaults": defaults}


def unit_line(s, fname="", no=0):
    fields = [p.strip() for p in s.split("=")]
    value = fields[1]
    mods = []
    if ";" in value:
        value, modtxt = value.split(";", 1)
        for part in modtxt.split(";"):
            k, v = part.split(":")
            mods.append((k.strip(), lex(v)))
    return {"kind": "unit", "fields": [fields[0]] + fields[2:], "rhs": lex(value), "mods": mods}


def coq_rawdef(d):
    k = d["kind"]
    if k == "prefix":
        return f"RPrefix {coq_list([coq_str(f) for f in d['fields']])} {coq_toks(d['value'])}"
    if k == "unit":
        mods = coq_list([f"({coq_str(a)}, {coq_toks(v)})" for a, v in d["mods"]])
        return f"RUnit {coq_list([coq_str(f) for f in d['fields']])} {coq_toks(d['rhs'])} {mods}"
    if k == "dim":
        return f"RDim {coq_str(d['name'])}"
    if k == "ddim":
        return f"RDerivedDim {coq_str(d['name'])} {coq_toks(d['rhs'])}"
    if k == "alias":
        return f"RAlias {coq_str(d['name'])} {coq_list([coq_str(a) for a in d['aliases']])}"
    raise T1Error(k)


def emit(parsed, ident="default"):
    out = ["(* generated by harness/t1_defs.py from the definition files — do not edit *)",
           "From PintV Require Import Model.UC Model.Eval Model.Registry.",
           "Open Scope string_scope.",
           f"Definition {ident}_raw : list rawdef := ["]
    out.append(";\n".join("  " + coq_rawdef(d) for d in parsed["defs"]))
    out.append("].")
    grp = coq_list([f"({coq_str(g['name'])}, {coq_list([coq_str(u) for u in g['using']])}, "
                    f"{coq_list([coq_str(u) for u in g['units']])})" for g in parsed["groups"]])
    out.append(f"Definition {ident}_groups : list (string * list string * list string) := {grp}.")
    sys_ = coq_list([f"({coq_str(g['name'])}, {coq_list([coq_str(u) for u in g['using']])}, "
                     f"{coq_list([coq_str(u) for u in g['rules']])})" for g in parsed["systems"]])
    out.append(f"Definition {ident}_systems : list (string * list string * list string) := {sys_}.")
    dfl = coq_list([f"({coq_str(k)}, {coq_str(v)})" for k, v in sorted(parsed["defaults"].items())])
    out.append(f"Definition {ident}_defaults : list (string * string) := {dfl}.")
    return "\n".join(out) + "\n"


def generate(ck=None):
    parsed = parse_file(REPO / "pint" / "default_en.txt")
    reg = ("(* generated by harness/t1_defs.py — do not edit *)\n"
           "From PintV Require Import Model.UC Model.Eval Model.Registry Gen.DefaultDefs.\n"
           "Definition default_reg : reg := match elab default_raw with Ok r => r | Err _ => empty_reg end.\n")
    return {"Gen/DefaultDefs.v": emit(parsed), "Gen/DefaultReg.v": reg}
