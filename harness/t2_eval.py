"""T2 — fail-closed translator: pint/pint_eval.py -> coq/Gen/EvalTables.v.

Read with Python's `ast` only (pint is never imported here).  Emitted:

  * `op_priority`           the dict literal `_OP_PRIORITY` (string keys, int values), in order;
  * `binary_operator_map`   the KEYS of `_BINARY_OPERATOR_MAP`, each with the source text of the
                            callable it maps to (`operator.mul`, `_power`, ...);
  * `unary_operator_map`    likewise for `_UNARY_OPERATOR_MAP` (`lambda x: x`, `lambda x: x * -1`);
  * `power_returns`         the expression returned by the module-level helper `_power`
                            (expected `operator.pow(left, right)`);
  * `evaluate_applies`      the callee expressions of the calls in `EvalTreeNode.evaluate` that are
                            not the recursive `.evaluate(...)` calls or `isinstance` (expected:
                            `bin_op[op_text]`, `un_op[op_text]`, `define_op`, `DefinitionSyntaxError`);
  * `paren_juxt_any_priority`, `pow_exempt_any_priority`
                            two booleans read off the SHAPE of two fragments of `_build_eval_tree`
                            (exactly two known shapes each, anything else is a translator error):
                            the body of `elif token_text == "(":` (true = as first found: the
                            group is attached by juxtaposition whatever the pending operator,
                            F16; false = priority test as for a NUMBER/NAME), and the test that
                            ends a pending operator (true = as first found: `**`/`^` never end
                            it, F41; false = exempt only at equal priority).  Model/Eval.v takes
                            both as parameters of `go_p`/`build_p`;
  * `imports`               every module imported anywhere in the file;
  * `forbidden_calls`       static scan: every call whose target is one of eval / exec / compile /
                            getattr / setattr / delattr / __import__ / open / input / globals /
                            locals / vars / breakpoint, or starts with os. / subprocess. / sys. /
                            importlib. / builtins. / shutil. / socket. / ctypes. / pickle.
                            (expected: none).

Anything the translator does not recognise (a table that is not a plain dict literal with
constant string keys, a second assignment to one of the tables, a missing `_power` or
`evaluate`, ...) raises T2Error -> the check reports the obligation as broken.
"""
from __future__ import annotations

import ast

from .common import REPO, coq_list, coq_str


class T2Error(Exception):
    pass


FORBIDDEN_NAMES = {"eval", "exec", "compile", "getattr", "setattr", "delattr", "__import__", "open",
                   "input", "globals", "locals", "vars", "breakpoint"}
FORBIDDEN_ROOTS = {"os", "subprocess", "sys", "importlib", "builtins", "shutil", "socket", "ctypes",
                   "pickle"}
TABLES = ("_OP_PRIORITY", "_BINARY_OPERATOR_MAP", "_UNARY_OPERATOR_MAP")


def dotted(node):
    if isinstance(node, ast.Name):
        return node.id
    if isinstance(node, ast.Attribute):
        d = dotted(node.value)
        return None if d is None else d + "." + node.attr
    return None


def table_literal(tree, name):
    """the unique module-level assignment `name = {...}` / `name: T = {...}`"""
    found = []
    for node in ast.walk(tree):
        targets = []
        if isinstance(node, ast.Assign):
            targets = node.targets
        elif isinstance(node, (ast.AnnAssign, ast.AugAssign)):
            targets = [node.target]
        elif isinstance(node, ast.NamedExpr):
            targets = [node.target]
        for t in targets:
            for sub in ast.walk(t):
                if isinstance(sub, ast.Name) and sub.id == name:
                    found.append(node)
                # _OP_PRIORITY["x"] = ... (mutation of the table after its definition)
        if isinstance(node, ast.Call):
            d = dotted(node.func)
            if d and d.split(".")[0] == name:
                raise T2Error(f"{name} is modified by a method call ({d})")
        if isinstance(node, ast.Delete):
            for t in node.targets:
                for sub in ast.walk(t):
                    if isinstance(sub, ast.Name) and sub.id == name:
                        raise T2Error(f"{name} is modified by a del statement")
    if len(found) != 1:
        raise T2Error(f"expected exactly one assignment to {name}, found {len(found)}")
    node = found[0]
    if node not in tree.body:
        raise T2Error(f"{name} is not assigned at module level")
    if isinstance(node, ast.Assign):
        if len(node.targets) != 1 or not isinstance(node.targets[0], ast.Name):
            raise T2Error(f"unrecognised assignment shape for {name}")
        value = node.value
    elif isinstance(node, ast.AnnAssign):
        if not isinstance(node.target, ast.Name) or node.value is None:
            raise T2Error(f"unrecognised assignment shape for {name}")
        value = node.value
    else:
        raise T2Error(f"unrecognised assignment shape for {name}")
    if not isinstance(value, ast.Dict):
        raise T2Error(f"{name} is not a dict literal")
    keys = []
    for k in value.keys:
        if not (isinstance(k, ast.Constant) and isinstance(k.value, str)):
            raise T2Error(f"{name}: non-constant or non-string key")
        if k.value in keys:
            raise T2Error(f"{name}: duplicate key {k.value!r}")
        keys.append(k.value)
    return keys, value.values


def int_value(node, name):
    if isinstance(node, ast.Constant) and type(node.value) is int:
        return node.value
    if isinstance(node, ast.UnaryOp) and isinstance(node.op, ast.USub) and \
            isinstance(node.operand, ast.Constant) and type(node.operand.value) is int:
        return -node.operand.value
    raise T2Error(f"{name}: value is not an integer literal")


def callable_text(node, name):
    if isinstance(node, (ast.Name, ast.Attribute)) and dotted(node):
        return dotted(node)
    if isinstance(node, ast.Lambda):
        return ast.unparse(node)
    raise T2Error(f"{name}: value is neither a name nor a lambda")


# ----------------------------------------------------------------------------- shapes of _build_eval_tree
PAREN_OLD = '''
right, index = _build_eval_tree(tokens, op_priority, index + 1, 0, token_text)
if not tokens[index][1] == ")":
    raise DefinitionSyntaxError("weird exit from parentheses")
if result:
    result = EvalTreeNode(left=result, right=right)
else:
    result = right
'''
PAREN_NEW = '''
if result:
    if op_priority[""] <= op_priority.get(prev_op, -1):
        return result, index - 1
    right, index = _build_eval_tree(tokens, op_priority, index, depth + 1, "")
    result = EvalTreeNode(left=result, right=right)
else:
    right, index = _build_eval_tree(tokens, op_priority, index + 1, 0, token_text)
    if not tokens[index][1] == ")":
        raise DefinitionSyntaxError("weird exit from parentheses")
    result = right
'''
POW_OLD = 'op_priority[token_text] <= op_priority.get(prev_op, -1) and token_text not in ("**", "^")'
POW_NEW = ('op_priority[token_text] < prev_priority or '
           '(op_priority[token_text] == prev_priority and token_text not in ("**", "^"))')
PREV_ASSIGN = "prev_priority = op_priority.get(prev_op, -1)"


def _dump_stmts(stmts):
    return [ast.dump(x) for x in stmts]


def _block(src):
    return _dump_stmts(ast.parse(src).body)


def builder_shapes(tree):
    """(paren_juxt_any_priority, pow_exempt_any_priority) from the shape of _build_eval_tree"""
    fns = [n for n in tree.body if isinstance(n, ast.FunctionDef) and n.name == "_build_eval_tree"]
    if len(fns) != 1:
        raise T2Error("expected exactly one module-level function _build_eval_tree")
    fn = fns[0]
    # --- the "(" branch
    parens = [n for n in ast.walk(fn) if isinstance(n, ast.If) and ast.unparse(n.test) == "token_text == '('"]
    if len(parens) != 1:
        raise T2Error(f"_build_eval_tree: expected exactly one branch on token_text == '(', found {len(parens)}")
    body = _dump_stmts(parens[0].body)
    if body == _block(PAREN_OLD):
        paren_any = True
    elif body == _block(PAREN_NEW):
        paren_any = False
    else:
        raise T2Error("_build_eval_tree: the '(' branch has neither of the two known shapes")
    # --- the test that ends a pending operator
    cands = [n for n in ast.walk(fn) if isinstance(n, ast.If) and "not in ('**', '^')" in ast.unparse(n.test)]
    if len(cands) != 1:
        raise T2Error(f"_build_eval_tree: expected exactly one test mentioning ('**', '^'), found {len(cands)}")
    cond = cands[0]
    if [ast.unparse(x) for x in cond.body] != ["return (result, index - 1)"]:
        raise T2Error("_build_eval_tree: the operator test does not end with 'return result, index - 1'")
    if cond.orelse:
        raise T2Error("_build_eval_tree: the operator test has an else branch")
    test = ast.dump(cond.test)
    assigns = [n for n in ast.walk(fn) if isinstance(n, (ast.Assign, ast.AnnAssign, ast.AugAssign, ast.NamedExpr))
               and any(isinstance(x, ast.Name) and x.id == "prev_priority"
                       for t in (n.targets if isinstance(n, ast.Assign) else [n.target]) for x in ast.walk(t))]
    if test == ast.dump(ast.parse(POW_OLD, mode="eval").body):
        if assigns:
            raise T2Error("_build_eval_tree: unexpected assignment to prev_priority")
        pow_any = True
    elif test == ast.dump(ast.parse(POW_NEW, mode="eval").body):
        if len(assigns) != 1 or ast.dump(assigns[0]) != ast.dump(ast.parse(PREV_ASSIGN).body[0]):
            raise T2Error("_build_eval_tree: prev_priority is not 'op_priority.get(prev_op, -1)' assigned once")
        # the assignment must be the statement just before the test, in the same block
        ok = False
        for n in ast.walk(fn):
            for field in ("body", "orelse"):
                blk = getattr(n, field, None)
                if isinstance(blk, list) and cond in blk:
                    i = blk.index(cond)
                    ok = i > 0 and blk[i - 1] is assigns[0]
        if not ok:
            raise T2Error("_build_eval_tree: prev_priority is not assigned directly before the operator test")
        pow_any = False
    else:
        raise T2Error("_build_eval_tree: the operator test has neither of the two known shapes")
    return paren_any, pow_any


def coq_Z(n):
    return f"({n})%Z" if n < 0 else f"{n}%Z"


def translate(source: str) -> str:
    tree = ast.parse(source)
    prio_keys, prio_vals = table_literal(tree, "_OP_PRIORITY")
    prio = [(k, int_value(v, "_OP_PRIORITY")) for k, v in zip(prio_keys, prio_vals)]
    bkeys, bvals = table_literal(tree, "_BINARY_OPERATOR_MAP")
    binmap = [(k, callable_text(v, "_BINARY_OPERATOR_MAP")) for k, v in zip(bkeys, bvals)]
    ukeys, uvals = table_literal(tree, "_UNARY_OPERATOR_MAP")
    unmap = [(k, callable_text(v, "_UNARY_OPERATOR_MAP")) for k, v in zip(ukeys, uvals)]

    # _power: exactly one module-level def, exactly one return
    powers = [n for n in tree.body if isinstance(n, ast.FunctionDef) and n.name == "_power"]
    if len(powers) != 1:
        raise T2Error("expected exactly one module-level function _power")
    rets = [n for n in ast.walk(powers[0]) if isinstance(n, ast.Return)]
    if len(rets) != 1 or rets[0].value is None:
        raise T2Error("_power: expected exactly one return with a value")
    power_returns = ast.unparse(rets[0].value)

    # EvalTreeNode.evaluate: which callables it applies
    classes = [n for n in tree.body if isinstance(n, ast.ClassDef) and n.name == "EvalTreeNode"]
    if len(classes) != 1:
        raise T2Error("expected exactly one class EvalTreeNode")
    evs = [n for n in classes[0].body if isinstance(n, ast.FunctionDef) and n.name == "evaluate"]
    if len(evs) != 1:
        raise T2Error("expected exactly one method EvalTreeNode.evaluate")
    applies = []
    for n in ast.walk(evs[0]):
        if isinstance(n, ast.Call):
            f = n.func
            if isinstance(f, ast.Attribute) and f.attr == "evaluate":
                continue
            if isinstance(f, ast.Name) and f.id == "isinstance":
                continue
            txt = ast.unparse(f)
            if txt not in applies:
                applies.append(txt)
    applies.sort()

    imports = []
    for n in ast.walk(tree):
        if isinstance(n, ast.Import):
            for a in n.names:
                imports.append(a.name)
        elif isinstance(n, ast.ImportFrom):
            imports.append("." * n.level + (n.module or ""))
    imports = sorted(set(imports))

    forbidden = []
    for n in ast.walk(tree):
        if isinstance(n, ast.Call):
            d = dotted(n.func)
            if d is None:
                continue
            if d in FORBIDDEN_NAMES or d.split(".")[0] in FORBIDDEN_ROOTS or \
                    d.split(".")[-1] in ("__import__", "system", "popen", "Popen"):
                forbidden.append(f"{d}@{n.lineno}")
        elif isinstance(n, ast.Name) and n.id in FORBIDDEN_NAMES and isinstance(n.ctx, ast.Load):
            # a bare reference (passed around rather than called) counts as well
            forbidden.append(f"{n.id}@{n.lineno}")
    forbidden = sorted(set(forbidden))

    paren_any, pow_any = builder_shapes(tree)

    def pairs_Z(ps):
        return coq_list([f"({coq_str(k)}, {coq_Z(v)})" for k, v in ps])

    def pairs_s(ps):
        return coq_list([f"({coq_str(k)}, {coq_str(v)})" for k, v in ps])

    return (
        "(* Gen/EvalTables.v — regenerated by harness/t2_eval.py from pint/pint_eval.py; do not edit *)\n"
        "From Coq Require Import ZArith String List.\nImport ListNotations.\nOpen Scope string_scope.\n\n"
        f"Definition op_priority : list (string * Z) :=\n  {pairs_Z(prio)}.\n"
        f"Definition binary_operator_map : list (string * string) :=\n  {pairs_s(binmap)}.\n"
        f"Definition unary_operator_map : list (string * string) :=\n  {pairs_s(unmap)}.\n"
        f"Definition power_returns : string := {coq_str(power_returns)}.\n"
        f"Definition evaluate_applies : list string := {coq_list([coq_str(x) for x in applies])}.\n"
        f"Definition paren_juxt_any_priority : bool := {'true' if paren_any else 'false'}.\n"
        f"Definition pow_exempt_any_priority : bool := {'true' if pow_any else 'false'}.\n"
        f"Definition imports : list string := {coq_list([coq_str(x) for x in imports])}.\n"
        f"Definition forbidden_calls : list string := {coq_list([coq_str(x) for x in forbidden])}.\n"
    )


def generate(ck=None):
    selftest()        # the translator checks itself on the committed miniature input first
    src = (REPO / "pint" / "pint_eval.py").read_text()
    return {"Gen/EvalTables.v": translate(src)}


MINI = '''
import operator
def _power(left, right):
    return operator.pow(left, right)
_UNARY_OPERATOR_MAP = {"-": lambda x: x * -1}
_BINARY_OPERATOR_MAP: dict = {"*": operator.mul, "**": _power}
_OP_PRIORITY = {"**": 3, "*": 1}
class EvalTreeNode:
    def evaluate(self, define_op, bin_op=None, un_op=None):
        if self.right:
            return bin_op[self.operator](self.left.evaluate(define_op), self.right.evaluate(define_op))
        return define_op(self.left)
def _build_eval_tree(tokens, op_priority, index=0, depth=0, prev_op="<none>"):
    result = None
    while True:
        token_text = tokens[index].string
        if token_text == ")":
            return result, index
        elif token_text == "(":
@PAREN@
        elif token_text in op_priority:
            if result:
@PREV@
                if @POW@:
                    return result, index - 1
                right, index = _build_eval_tree(tokens, op_priority, index + 1, depth + 1, token_text)
        index += 1
'''


def _mini(paren, pow_test, prev=""):
    ind = lambda txt, n: "\n".join(" " * n + l for l in txt.strip().splitlines())
    return (MINI.replace("@PAREN@", ind(paren, 12)).replace("@POW@", pow_test)
            .replace("@PREV@", " " * 16 + (prev or "pass")))


def selftest():
    new_src = _mini(PAREN_NEW, POW_NEW, PREV_ASSIGN)
    old_src = _mini(PAREN_OLD, POW_OLD)
    out = translate(new_src)
    assert '[("**", 3%Z); ("*", 1%Z)]' in out and '("**", "_power")' in out, out
    assert 'forbidden_calls : list string := []' in out, out
    assert "paren_juxt_any_priority : bool := false" in out and "pow_exempt_any_priority : bool := false" in out, out
    out_old = translate(old_src)
    assert "paren_juxt_any_priority : bool := true" in out_old and "pow_exempt_any_priority : bool := true" in out_old
    mixed = translate(_mini(PAREN_NEW, POW_OLD))
    assert "paren_juxt_any_priority : bool := false" in mixed and "pow_exempt_any_priority : bool := true" in mixed
    for bad in (new_src + "\n_OP_PRIORITY['*'] = 5\n", new_src.replace('{"**": 3, "*": 1}', 'dict(a=1)'),
                new_src + "\n_OP_PRIORITY.update({'+': 9})\n",
                _mini(PAREN_NEW, POW_NEW),                                   # prev_priority never assigned
                _mini(PAREN_NEW, POW_OLD.replace("<=", "<")),                # a third shape of the test
                _mini(PAREN_NEW, POW_NEW.replace("==", ">="), PREV_ASSIGN),
                _mini(PAREN_NEW, POW_NEW, "prev_priority = op_priority.get(prev_op, 0)"),
                _mini(PAREN_OLD.replace("index + 1, 0", "index + 1, 1"), POW_OLD)):
        try:
            translate(bad)
        except T2Error:
            continue
        raise AssertionError("T2 accepted a source it cannot read")
    assert "eval@" in translate(new_src + "\nx = eval('1')\n")
    assert "os.system@" in translate(new_src + "\nimport os\nos.system('true')\n")
    return True


if __name__ == "__main__":
    selftest()
    print(generate()["Gen/EvalTables.v"])
