"""T3 — fail-closed translator: pint/facets/numpy/numpy_func.py  ->  coq/Gen/NumpyTables.v

Reads the source with `ast` only (pint is NOT imported).  What is translated is the part of
numpy_func.py that *is data*:

* the seven ufunc behaviour collections,
* every module-level registration, in source order (later registrations overwrite earlier
  ones in HANDLED_UFUNCS / HANDLED_FUNCTIONS, exactly like the dict assignment does):
    - `for ... in <collection>: implement_func(type, name, input_units=..., output_unit=...)`
      expanded entry by entry  ->  `RTable (Beh in out)`,
    - the `implement_consistent_units_by_argument` tuple list -> `RByArg labels wrap_output`,
    - `@implements(name, type)` decorated functions and the small registrar loops
      (`implement_prod_func`, `implement_mul_func`, ...) -> `RSpecial "<python function>"`,
* the branch names of `get_op_output_unit`, the operation names `implement_func` forwards to
  it, the names with the element-wise fallback, and the two keywords "all_consistent" /
  "match_input".

Every module-level statement must be of a recognised shape; anything else raises
`T3Error` (the check then reports the obligation as broken; nothing is skipped silently).
"""
from __future__ import annotations

import ast

COLLECTIONS = {
    "strip_unit_input_output_ufuncs": "list",
    "matching_input_bare_output_ufuncs": "list",
    "matching_input_set_units_output_ufuncs": "dict1",
    "set_units_ufuncs": "dict2",
    "matching_input_copy_units_output_ufuncs": "list",
    "copy_units_output_ufuncs": "list",
    "op_units_output_ufuncs": "dict1",
}
# helper functions whose behaviour is tied by the correspondence K, not by T3
HELPERS = {
    "_is_quantity", "_is_sequence_with_quantity_elements", "_get_first_input_units",
    "convert_arg", "convert_to_consistent_units", "unwrap_and_wrap_consistent_units",
    "implements", "_base_unit_if_needed", "numpy_wrap",
}
# registrar functions: name -> ("function"|"ufunc") registered by the @implements inside
REGISTRARS = {
    "implement_prod_func", "implement_mul_func", "implement_consistent_units_by_argument",
    "implement_close", "implement_atleast_nd", "implement_single_dimensionless_argument_func",
}


class T3Error(Exception):
    pass


def fail(node, msg):
    raise T3Error(f"numpy_func.py:{getattr(node, 'lineno', '?')}: {msg}")


def const_str(n):
    if isinstance(n, ast.Constant) and isinstance(n.value, str):
        return n.value
    fail(n, f"expected a string literal, found {ast.dump(n)[:80]}")


def str_or_none(n):
    if isinstance(n, ast.Constant) and n.value is None:
        return None
    return const_str(n)


def parse_collection(kind, node):
    if kind == "list":
        if not isinstance(node, ast.List):
            fail(node, "behaviour collection is not a list literal")
        return [const_str(e) for e in node.elts]
    if not isinstance(node, ast.Dict):
        fail(node, "behaviour collection is not a dict literal")
    out = []
    for k, v in zip(node.keys, node.values):
        if k is None:
            fail(node, "dict unpacking in behaviour collection")
        if kind == "dict1":
            out.append((const_str(k), const_str(v)))
        else:
            if not (isinstance(v, ast.Tuple) and len(v.elts) == 2):
                fail(v, "set_units_ufuncs value is not a 2-tuple")
            out.append((const_str(k), (const_str(v.elts[0]), const_str(v.elts[1]))))
    keys = [k for k, _ in out]
    if len(set(keys)) != len(keys):
        fail(node, "duplicate key in behaviour collection")
    return out


def implements_decorators(fn):
    """[(name, type)] of the @implements(...) decorators, applied bottom-up (the order in which
    the dict assignments happen)."""
    regs = []
    for d in reversed(fn.decorator_list):
        if not (isinstance(d, ast.Call) and isinstance(d.func, ast.Name) and d.func.id == "implements"
                and len(d.args) == 2 and not d.keywords):
            fail(d, "unrecognised decorator")
        regs.append((d.args[0], d.args[1]))
    return regs


def inner_implements(fn):
    """for a registrar: the single nested function decorated with @implements(<param>, "<type>")"""
    found = []
    for sub in ast.walk(fn):
        if isinstance(sub, ast.FunctionDef) and sub is not fn and sub.decorator_list:
            for nm, ty in implements_decorators(sub):
                found.append((nm, const_str(ty)))
    if len(found) != 1:
        fail(fn, f"registrar {fn.name}: expected exactly one nested @implements, found {len(found)}")
    nm, ty = found[0]
    if not isinstance(nm, ast.Name):
        fail(fn, f"registrar {fn.name}: registered name is not a variable")
    return nm.id, ty


def parse_get_op_output_unit(fn):
    """the `if unit_op == "...": ... elif ...: else: raise ValueError` chain"""
    chains = [s for s in fn.body if isinstance(s, ast.If)]
    if len(chains) != 1:
        fail(fn, "get_op_output_unit: expected exactly one if/elif chain")
    for s in fn.body:
        if not isinstance(s, (ast.If, ast.Expr, ast.Assign, ast.Return)):
            fail(s, "get_op_output_unit: unexpected statement")
    names = []
    node = chains[0]
    while True:
        t = node.test
        if not (isinstance(t, ast.Compare) and isinstance(t.left, ast.Name) and t.left.id == "unit_op"
                and len(t.ops) == 1 and isinstance(t.ops[0], ast.Eq) and len(t.comparators) == 1):
            fail(t, "get_op_output_unit: branch test is not `unit_op == \"...\"`")
        names.append(const_str(t.comparators[0]))
        if len(node.orelse) == 1 and isinstance(node.orelse[0], ast.If):
            node = node.orelse[0]
            continue
        if not (len(node.orelse) == 1 and isinstance(node.orelse[0], ast.Raise)):
            fail(node, "get_op_output_unit: chain does not end in `else: raise`")
        break
    if len(set(names)) != len(names):
        fail(fn, "get_op_output_unit: duplicate branch")
    return names


def parse_implement_func(fn):
    """keywords and the forwarded operation names inside implement_func.implementation"""
    params = [a.arg for a in fn.args.args]
    if params != ["func_type", "func_str", "input_units", "output_unit"]:
        fail(fn, f"implement_func: parameters changed: {params}")
    defaults = [d.value if isinstance(d, ast.Constant) else "?" for d in fn.args.defaults]
    if defaults != [None, None]:
        fail(fn, "implement_func: defaults of input_units/output_unit changed")
    ops = None
    fallback = None
    kw_in = kw_out = None
    none_bare = False
    for n in ast.walk(fn):
        if isinstance(n, ast.Compare) and isinstance(n.left, ast.Name) and len(n.ops) == 1:
            c = n.comparators[0]
            if n.left.id == "output_unit" and isinstance(n.ops[0], ast.In):
                if not isinstance(c, (ast.Tuple, ast.List)) or ops is not None:
                    fail(n, "implement_func: unrecognised `output_unit in ...`")
                ops = [const_str(e) for e in c.elts]
            elif n.left.id == "output_unit" and isinstance(n.ops[0], ast.Eq):
                if kw_out is not None:
                    fail(n, "implement_func: more than one `output_unit == ...`")
                kw_out = const_str(c)
            elif n.left.id == "output_unit" and isinstance(n.ops[0], ast.Is):
                if not (isinstance(c, ast.Constant) and c.value is None):
                    fail(n, "implement_func: unrecognised `output_unit is ...`")
                none_bare = True
            elif n.left.id == "input_units" and isinstance(n.ops[0], ast.Eq):
                if kw_in is not None:
                    fail(n, "implement_func: more than one `input_units == ...`")
                kw_in = const_str(c)
            elif n.left.id == "func_str" and isinstance(n.ops[0], ast.In):
                if not isinstance(c, (ast.Tuple, ast.List)) or fallback is not None:
                    fail(n, "implement_func: unrecognised `func_str in ...`")
                fallback = [const_str(e) for e in c.elts]
            elif n.left.id in ("output_unit", "input_units"):
                fail(n, "implement_func: unrecognised test on input_units/output_unit")
    if ops is None or fallback is None or kw_in is None or kw_out is None or not none_bare:
        fail(fn, "implement_func: expected tests on input_units/output_unit not found")
    return ops, fallback, kw_in, kw_out


def literal_names(node):
    if not isinstance(node, (ast.Tuple, ast.List)):
        fail(node, "loop iterable is not a tuple/list literal")
    return [const_str(e) for e in node.elts]


def translate(source: str):
    """-> dict with the translated data (pure python values)"""
    mod = ast.parse(source)
    colls = {}
    regs = []          # (type, name, ("table", in, out) | ("byarg", labels, wrap) | ("special", impl))
    registrars = {}    # registrar function -> (param name, type)
    op_branches = impl_ops = fallback = kw_in = kw_out = None

    def behaviour_value(node, env):
        """argument of implement_func: literal, None, or a loop variable"""
        if isinstance(node, ast.Name):
            if node.id not in env:
                fail(node, f"implement_func argument {node.id} is not a loop variable")
            return env[node.id]
        return str_or_none(node)

    def do_implement_func(call, env):
        if call.keywords and any(k.arg not in ("input_units", "output_unit") for k in call.keywords):
            fail(call, "implement_func: unexpected keyword")
        pos = list(call.args)
        if len(pos) < 2 or len(pos) > 4:
            fail(call, "implement_func: unexpected positional arguments")
        ftype = const_str(pos[0])
        if ftype not in ("ufunc", "function"):
            fail(call, f"implement_func: func_type {ftype!r}")
        name = behaviour_value(pos[1], env)
        vals = {"input_units": None, "output_unit": None}
        for key, node in zip(("input_units", "output_unit"), pos[2:]):
            vals[key] = behaviour_value(node, env)
        for k in call.keywords:
            vals[k.arg] = behaviour_value(k.value, env)
        if not isinstance(name, str):
            fail(call, "implement_func: name is not a string")
        for v in vals.values():
            if not (v is None or isinstance(v, str)):
                fail(call, "implement_func: behaviour argument is neither None nor a string")
        regs.append((ftype, name, ("table", vals["input_units"], vals["output_unit"])))

    for st in mod.body:
        if isinstance(st, ast.Expr) and isinstance(st.value, ast.Constant) and isinstance(st.value.value, str):
            continue
        if isinstance(st, (ast.Import, ast.ImportFrom)):
            continue
        if isinstance(st, ast.Assign):
            if len(st.targets) != 1 or not isinstance(st.targets[0], ast.Name):
                fail(st, "unrecognised module-level assignment")
            tgt = st.targets[0].id
            if tgt in ("HANDLED_UFUNCS", "HANDLED_FUNCTIONS"):
                if not (isinstance(st.value, ast.Dict) and not st.value.keys):
                    fail(st, f"{tgt} is not initialised to an empty dict")
                continue
            if tgt in COLLECTIONS:
                if tgt in colls:
                    fail(st, f"{tgt} assigned twice")
                colls[tgt] = parse_collection(COLLECTIONS[tgt], st.value)
                continue
            fail(st, f"unknown module-level name {tgt}")
        if isinstance(st, ast.FunctionDef):
            if st.name == "get_op_output_unit":
                op_branches = parse_get_op_output_unit(st)
            elif st.name == "implement_func":
                impl_ops, fallback, kw_in, kw_out = parse_implement_func(st)
            elif st.name in REGISTRARS:
                registrars[st.name] = inner_implements(st)
            elif st.decorator_list:
                for nm, ty in implements_decorators(st):
                    ty = const_str(ty)
                    if ty not in ("ufunc", "function"):
                        fail(st, f"@implements type {ty!r}")
                    regs.append((ty, const_str(nm), ("special", st.name)))
            elif st.name in HELPERS:
                pass
            else:
                fail(st, f"unknown module-level function {st.name}")
            continue
        if isinstance(st, ast.For):
            if st.orelse or len(st.body) != 1 or not isinstance(st.body[0], ast.Expr) \
                    or not isinstance(st.body[0].value, ast.Call) or not isinstance(st.body[0].value.func, ast.Name):
                fail(st, "unrecognised module-level loop")
            call = st.body[0].value
            callee = call.func.id
            # ---- loop variables and the values they range over
            tgt, it = st.target, st.iter
            if callee == "implement_func":
                if isinstance(it, ast.Name):                       # for x in <list collection>
                    if it.id not in colls or COLLECTIONS[it.id] != "list" or not isinstance(tgt, ast.Name):
                        fail(st, "loop over an unknown collection")
                    envs = [{tgt.id: n} for n in colls[it.id]]
                elif isinstance(it, ast.Call) and isinstance(it.func, ast.Attribute) and it.func.attr == "items" \
                        and isinstance(it.func.value, ast.Name) and not it.args and not it.keywords:
                    cname = it.func.value.id                        # for k, v in <dict collection>.items()
                    if cname not in colls or COLLECTIONS[cname] == "list":
                        fail(st, "`.items()` loop over an unknown collection")
                    if not (isinstance(tgt, ast.Tuple) and len(tgt.elts) == 2 and isinstance(tgt.elts[0], ast.Name)):
                        fail(st, "unrecognised loop target")
                    envs = []
                    for k, v in colls[cname]:
                        e = {tgt.elts[0].id: k}
                        t1 = tgt.elts[1]
                        if COLLECTIONS[cname] == "dict1":
                            if not isinstance(t1, ast.Name):
                                fail(st, "unrecognised loop target")
                            e[t1.id] = v
                        else:
                            if not (isinstance(t1, ast.Tuple) and len(t1.elts) == 2
                                    and all(isinstance(x, ast.Name) for x in t1.elts)):
                                fail(st, "unrecognised loop target")
                            e[t1.elts[0].id], e[t1.elts[1].id] = v
                        envs.append(e)
                else:                                               # for x in ("a", "b", ...)
                    if not isinstance(tgt, ast.Name):
                        fail(st, "unrecognised loop target")
                    envs = [{tgt.id: n} for n in literal_names(it)]
                for e in envs:
                    do_implement_func(call, e)
                continue
            if callee == "implement_consistent_units_by_argument":
                if callee not in registrars:
                    fail(st, "registrar used before its definition")
                if not (isinstance(tgt, ast.Tuple) and len(tgt.elts) == 3 and isinstance(it, (ast.Tuple, ast.List))):
                    fail(st, "unrecognised by-argument loop")
                if [a.id if isinstance(a, ast.Name) else None for a in call.args] != [x.id for x in tgt.elts] or call.keywords:
                    fail(st, "by-argument loop does not pass its three loop variables in order")
                for row in it.elts:
                    if not (isinstance(row, ast.Tuple) and len(row.elts) == 3):
                        fail(row, "by-argument row is not a 3-tuple")
                    name = const_str(row.elts[0])
                    ua = row.elts[1]
                    if isinstance(ua, ast.List):
                        labels = [const_str(x) for x in ua.elts]
                    else:
                        labels = list(const_str(ua))      # a str is iterated character by character
                    w = row.elts[2]
                    if not (isinstance(w, ast.Constant) and isinstance(w.value, bool)):
                        fail(w, "wrap_output is not a bool literal")
                    regs.append((registrars[callee][1], name, ("byarg", labels, w.value)))
                continue
            if callee in REGISTRARS:
                if callee not in registrars:
                    fail(st, "registrar used before its definition")
                if not (isinstance(tgt, ast.Name) and len(call.args) == 1 and isinstance(call.args[0], ast.Name)
                        and call.args[0].id == tgt.id and not call.keywords):
                    fail(st, "unrecognised registrar loop")
                for n in literal_names(it):
                    regs.append((registrars[callee][1], n, ("special", callee)))
                continue
            fail(st, f"module-level loop calls unknown function {callee}")
        fail(st, f"unrecognised module-level statement {type(st).__name__}")

    missing = [c for c in COLLECTIONS if c not in colls]
    if missing:
        raise T3Error(f"behaviour collections not found: {missing}")
    if op_branches is None or impl_ops is None:
        raise T3Error("get_op_output_unit / implement_func not found")
    for r in REGISTRARS:
        if r not in registrars:
            raise T3Error(f"registrar {r} not found")
    return {"collections": colls, "registrations": regs, "op_branches": op_branches,
            "implement_func_ops": impl_ops, "elementwise_fallback": fallback,
            "kw_all_consistent": kw_in, "kw_match_input": kw_out}


def translate_quantity(source: str):
    """pint/facets/numpy/quantity.py: the `_wrapped_numpy_methods` literal of NumpyQuantity"""
    mod = ast.parse(source)
    found = []
    for st in mod.body:
        if isinstance(st, ast.ClassDef) and st.name == "NumpyQuantity":
            for sub in st.body:
                if isinstance(sub, ast.Assign) and len(sub.targets) == 1 and isinstance(sub.targets[0], ast.Name) \
                        and sub.targets[0].id == "_wrapped_numpy_methods":
                    if not isinstance(sub.value, ast.List):
                        fail(sub, "_wrapped_numpy_methods is not a list literal")
                    found.append([const_str(e) for e in sub.value.elts])
    if len(found) != 1:
        raise T3Error(f"quantity.py: expected one NumpyQuantity._wrapped_numpy_methods, found {len(found)}")
    return found[0]


# --------------------------------------------------------------------------- Coq emission
def cs(s):
    return '"' + s.replace('"', '""') + '"'


def clist(xs, per_line=6):
    xs = list(xs)
    if not xs:
        return "[]"
    rows = ["; ".join(xs[i:i + per_line]) for i in range(0, len(xs), per_line)]
    return "[" + ";\n   ".join(rows) + "]"


def coq_in(v, kw_in):
    if v is None:
        return "InStrip"
    if v == kw_in:
        return "InAllConsistent"
    return f"(InToUnit {cs(v)})"


def coq_out(v, kw_out, ops):
    if v is None:
        return "OutBare"
    if v == kw_out:
        return "OutMatchInput"
    if v in ops:
        return f"(OutOp {cs(v)})"
    return f"(OutFixed {cs(v)})"


def emit(data) -> str:
    c = data["collections"]
    kin, kout, ops = data["kw_all_consistent"], data["kw_match_input"], data["implement_func_ops"]
    out = ["(* GENERATED by harness/t3_numpy.py from pint/facets/numpy/numpy_func.py — do not edit *)",
           "From PintV Require Import Model.Numpy.", "Open Scope string_scope.", ""]
    for name, kind in COLLECTIONS.items():
        if kind == "list":
            out.append(f"Definition {name} : list string :=\n  {clist(cs(x) for x in c[name])}.")
        elif kind == "dict1":
            out.append(f"Definition {name} : list (string * string) :=\n  "
                       f"{clist((f'({cs(k)}, {cs(v)})' for k, v in c[name]), 4)}.")
        else:
            out.append(f"Definition {name} : list (string * (string * string)) :=\n  "
                       f"{clist((f'({cs(k)}, ({cs(v[0])}, {cs(v[1])}))' for k, v in c[name]), 3)}.")
    for ty, dn in (("ufunc", "ufunc_registrations"), ("function", "function_registrations")):
        rows = []
        for t, name, r in data["registrations"]:
            if t != ty:
                continue
            if r[0] == "table":
                rows.append(f"({cs(name)}, RTable (Beh {coq_in(r[1], kin)} {coq_out(r[2], kout, ops)}))")
            elif r[0] == "byarg":
                rows.append(f"({cs(name)}, RTable (Beh (InByArgument {clist((cs(x) for x in r[1]), 8)}) "
                            f"{'OutMatchInput' if r[2] else 'OutBare'}))")
            else:
                rows.append(f"({cs(name)}, RSpecial {cs(r[1])})")
        out.append(f"(* source order; a later entry for the same name overwrites an earlier one *)\n"
                   f"Definition {dn} : list (string * registration) :=\n  {clist(rows, 2)}.")
    out.append(f"Definition op_branches : list string :=\n  {clist(cs(x) for x in data['op_branches'])}.")
    out.append(f"Definition implement_func_ops : list string :=\n  {clist(cs(x) for x in ops)}.")
    out.append(f"Definition elementwise_fallback : list string :=\n  {clist(cs(x) for x in data['elementwise_fallback'])}.")
    out.append(f"Definition wrapped_numpy_methods : list string :=\n  {clist(cs(x) for x in data['wrapped_numpy_methods'])}.")
    out.append(f"Definition kw_all_consistent : string := {cs(kin)}.")
    out.append(f"Definition kw_match_input : string := {cs(kout)}.")
    return "\n".join(out) + "\n"


def generate(ck=None):
    from .common import REPO
    d = REPO / "pint" / "facets" / "numpy"
    data = translate((d / "numpy_func.py").read_text())
    data["wrapped_numpy_methods"] = translate_quantity((d / "quantity.py").read_text())
    return {"Gen/NumpyTables.v": emit(data)}


if __name__ == "__main__":
    import sys
    from pathlib import Path
    d = Path(sys.argv[1]) / "pint" / "facets" / "numpy"
    data = translate((d / "numpy_func.py").read_text())
    data["wrapped_numpy_methods"] = translate_quantity((d / "quantity.py").read_text())
    print(emit(data))
