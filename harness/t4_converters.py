"""T4 — converter formulas of pint as arithmetic expression ASTs (no pint import, fail-closed).

Reads with Python's `ast` the bodies of `to_reference` / `from_reference` of `ScaleConverter`
(pint/facets/plain/definitions.py), `OffsetConverter` and `LogarithmicConverter`
(pint/facets/nonmultiplicative/definitions.py) — the functional expression (the `else:` branch of
`if inplace:`) and the in-place statement list — and emits `coq/Gen/Converters.v`:

    Definition gen_scale_conv / gen_offset_conv / gen_log_conv : cconv := ...

over the variables value / scale / offset / logbase / logfactor with + - * / log exp
(types from Model/Offset.v).  Tie lemmas `gen_x = Model.x` are in Proofs/OffsetProofs.v.
Any shape that is not recognised raises T4Error: the check then reports the tie as broken.
"""
from __future__ import annotations

import ast

from .common import REPO


class T4Error(Exception):
    pass


PARAMS = {"scale": "VScale", "offset": "VOffset", "logbase": "VLogbase", "logfactor": "VLogfactor"}
BINOPS = {ast.Add: "EAdd", ast.Sub: "ESub", ast.Mult: "EMul", ast.Div: "EDiv"}
AUGOPS = {ast.Add: "AAdd", ast.Sub: "ASub", ast.Mult: "AMul", ast.Div: "ADiv"}
FUNCS = {"log": "ELog", "exp": "EExp"}


def expr(e) -> str:
    if isinstance(e, ast.Name) and e.id == "value":
        return "(EVar VValue)"
    if (isinstance(e, ast.Attribute) and isinstance(e.value, ast.Name) and e.value.id == "self"
            and e.attr in PARAMS):
        return f"(EVar {PARAMS[e.attr]})"
    if isinstance(e, ast.BinOp) and type(e.op) in BINOPS:
        return f"({BINOPS[type(e.op)]} {expr(e.left)} {expr(e.right)})"
    if (isinstance(e, ast.Call) and isinstance(e.func, ast.Name) and e.func.id in FUNCS
            and len(e.args) == 1 and not e.keywords):
        return f"({FUNCS[e.func.id]} {expr(e.args[0])})"
    raise T4Error(f"unrecognised expression at line {getattr(e, 'lineno', '?')}: {ast.dump(e)[:120]}")


def is_value(e):
    return isinstance(e, ast.Name) and e.id == "value"


def stmt(s) -> str:
    if isinstance(s, ast.AugAssign) and is_value(s.target) and type(s.op) in AUGOPS:
        return f"SAug {AUGOPS[type(s.op)]} {expr(s.value)}"
    if isinstance(s, ast.Assign) and len(s.targets) == 1 and is_value(s.targets[0]):
        return f"SSet {expr(s.value)}"
    # if HAS_NUMPY: f(value, value)  else: value = f(value)      (the ufunc writes into its 2nd argument)
    if (isinstance(s, ast.If) and isinstance(s.test, ast.Name) and s.test.id == "HAS_NUMPY"
            and len(s.body) == 1 and len(s.orelse) == 1):
        b, o = s.body[0], s.orelse[0]
        if (isinstance(b, ast.Expr) and isinstance(b.value, ast.Call) and isinstance(b.value.func, ast.Name)
                and b.value.func.id in FUNCS and len(b.value.args) == 2 and not b.value.keywords
                and all(is_value(a) for a in b.value.args)
                and isinstance(o, ast.Assign) and len(o.targets) == 1 and is_value(o.targets[0])
                and isinstance(o.value, ast.Call) and isinstance(o.value.func, ast.Name)
                and o.value.func.id == b.value.func.id and len(o.value.args) == 1 and is_value(o.value.args[0])):
            return f"SSet ({FUNCS[b.value.func.id]} (EVar VValue))"
    raise T4Error(f"unrecognised in-place statement at line {getattr(s, 'lineno', '?')}: {ast.dump(s)[:160]}")


def method(fn: ast.FunctionDef) -> str:
    """def f(self, value, inplace=False): [doc]; if inplace: S* else: value = E; return value"""
    args = [a.arg for a in fn.args.args]
    if args != ["self", "value", "inplace"]:
        raise T4Error(f"{fn.name}: unexpected parameters {args}")
    body = list(fn.body)
    if body and isinstance(body[0], ast.Expr) and isinstance(body[0].value, ast.Constant) \
            and isinstance(body[0].value.value, str):
        body = body[1:]
    if len(body) != 2:
        raise T4Error(f"{fn.name}: expected 'if inplace: ... else: ...; return value'")
    cond, ret = body
    if not (isinstance(ret, ast.Return) and is_value(ret.value)):
        raise T4Error(f"{fn.name}: does not end in 'return value'")
    if not (isinstance(cond, ast.If) and isinstance(cond.test, ast.Name) and cond.test.id == "inplace"):
        raise T4Error(f"{fn.name}: no 'if inplace:'")
    if not (len(cond.orelse) == 1 and isinstance(cond.orelse[0], ast.Assign)
            and len(cond.orelse[0].targets) == 1 and is_value(cond.orelse[0].targets[0])):
        raise T4Error(f"{fn.name}: functional branch is not a single 'value = <expr>'")
    fun = expr(cond.orelse[0].value)
    inpl = "[" + "; ".join(stmt(s) for s in cond.body) + "]"
    return f"(CF {fun} {inpl})"


def find_class(tree, name, path):
    for node in tree.body:
        if isinstance(node, ast.ClassDef) and node.name == name:
            return node
    raise T4Error(f"class {name} not found in {path}")


def converter(tree, cls, path) -> str:
    node = find_class(tree, cls, path)
    fns = {n.name: n for n in node.body if isinstance(n, ast.FunctionDef)}
    for m in ("to_reference", "from_reference"):
        if m not in fns:
            raise T4Error(f"{cls}.{m} not found in {path}")
    return f"CC {method(fns['to_reference'])}\n     {method(fns['from_reference'])}"


def check_imports(tree, path):
    """log / exp must be the names imported from pint.compat (natural logarithm / exponential)"""
    for node in tree.body:
        if isinstance(node, ast.ImportFrom) and node.module == "compat" and node.level == 3:
            names = {a.name for a in node.names if a.asname is None}
            if {"log", "exp", "HAS_NUMPY"} <= names:
                return
    raise T4Error(f"{path}: 'from ...compat import HAS_NUMPY, exp, log' not found")


def check_compat(path):
    """compat.log / compat.exp are numpy's or math's natural log / exp"""
    tree = ast.parse(path.read_text(encoding="utf-8"))
    ok = set()
    for node in ast.walk(tree):
        if isinstance(node, ast.ImportFrom) and node.module in ("numpy", "math"):
            for a in node.names:
                if a.name in ("log", "exp") and a.asname is None:
                    ok.add((node.module, a.name))
                elif a.asname in ("log", "exp") or (a.name in ("log", "exp") and a.asname is not None):
                    raise T4Error(f"{path}: {a.name} imported as {a.asname}")
        if isinstance(node, (ast.Assign, ast.FunctionDef)):
            tg = [node.name] if isinstance(node, ast.FunctionDef) else \
                [t.id for t in node.targets if isinstance(t, ast.Name)]
            if any(t in ("log", "exp") for t in tg):
                raise T4Error(f"{path}: log/exp redefined at line {node.lineno}")
    if not {("math", "log"), ("math", "exp")} <= ok and not {("numpy", "log"), ("numpy", "exp")} <= ok:
        raise T4Error(f"{path}: log/exp are not imported from numpy or math")


def generate(ck=None):
    p_plain = REPO / "pint" / "facets" / "plain" / "definitions.py"
    p_nm = REPO / "pint" / "facets" / "nonmultiplicative" / "definitions.py"
    t_plain = ast.parse(p_plain.read_text(encoding="utf-8"))
    t_nm = ast.parse(p_nm.read_text(encoding="utf-8"))
    check_imports(t_nm, p_nm)
    check_compat(REPO / "pint" / "compat.py")
    out = ["(* generated by harness/t4_converters.py from pint/facets/plain/definitions.py and",
           "   pint/facets/nonmultiplicative/definitions.py — do not edit *)",
           "From PintV Require Import Model.UC Model.Offset.",
           f"Definition gen_scale_conv : cconv :=\n  {converter(t_plain, 'ScaleConverter', p_plain)}.",
           f"Definition gen_offset_conv : cconv :=\n  {converter(t_nm, 'OffsetConverter', p_nm)}.",
           f"Definition gen_log_conv : cconv :=\n  {converter(t_nm, 'LogarithmicConverter', p_nm)}."]
    return {"Gen/Converters.v": "\n".join(out) + "\n"}
