"""T5 — fail-closed translator: pint's exception classes -> coq/Gen/ErrorsTable.v.

Source: /repo/pint/errors.py and every subclass of the exception classes defined there that
lives anywhere else under /repo/pint (all *.py outside testsuite), read with Python's `ast`
only (pint is never imported here).

For every exception class the translator determines
  * the effective `__init__`  (own, inherited along the C3 MRO, `@dataclass` fields, or
    BaseException's `*args`),  as a parameter list with defaults plus the list of
    `self.<field> = <expr>` assignments (only two expression shapes are understood:
    the parameter itself, and UndefinedUnitError's "str -> 1-tuple, else tuple(...)");
  * the effective `__reduce__` (own or inherited along the MRO; BaseException's
    `(cls, self.args[, self.__dict__])` when nobody overrides it), as the list of attributes
    in the argument tuple (+ the attribute names of an optional literal state dict).

Anything else (other statements in `__init__`, `*args`/keyword-only parameters, a
`__reduce__` of another shape, `__getstate__`/`__setstate__`/`__reduce_ex__`/`__new__`/
`__getnewargs__` in an exception class, nested exception classes, unknown external bases,
unresolvable imports) raises T5Error -> the check reports the obligation as broken.
"""
from __future__ import annotations

import ast
import importlib.util
from pathlib import Path

from .common import REPO, coq_list, coq_opt, coq_str


class T5Error(Exception):
    pass


# builtin exception bases whose own __dict__ carries nothing but BaseException's varargs
# __init__/__new__ (verified on CPython 3.12: no __reduce__/__getstate__/__setstate__/__str__)
BUILTIN_SIMPLE = {"BaseException", "Exception", "ValueError", "TypeError", "UserWarning", "Warning",
                  "RuntimeError", "ArithmeticError", "LookupError", "DeprecationWarning",
                  "RuntimeWarning", "FutureWarning", "NotImplementedError", "AssertionError",
                  "ZeroDivisionError", "OverflowError", "IndexError"}
# builtin exception bases with an __init__/__reduce__/__getstate__ of their own: fine as a base as
# long as the pint class overrides what it would otherwise inherit from them
BUILTIN_SPECIAL = {"AttributeError", "KeyError", "OSError", "ImportError", "NameError", "StopIteration",
                   "SyntaxError", "UnicodeError", "IOError", "ModuleNotFoundError", "FileNotFoundError"}
# third-party bases: accepted only after their source has been read (see _external_is_plain)
EXTERNAL_SOURCES = {"flexparser.ParsingError": ("flexparser", "flexparser.py", "ParsingError")}
FORBIDDEN_HOOKS = {"__getstate__", "__setstate__", "__reduce_ex__", "__new__", "__getnewargs__",
                   "__getnewargs_ex__", "__post_init__", "__init_subclass__", "__setattr__"}


# ----------------------------------------------------------------------------- module reading
class Mod:
    def __init__(self, name, path, is_pkg):
        self.name, self.path, self.is_pkg = name, path, is_pkg
        self.tree = ast.parse(path.read_text(), filename=str(path))
        self.imports = {}     # local name -> dotted target
        self.classes = {}     # top-level class name -> ClassDef
        self.nested = []      # ClassDefs that are not top-level
        pkg = name if is_pkg else name.rpartition(".")[0]
        for node in ast.walk(self.tree):
            if isinstance(node, ast.ImportFrom):
                if node.level:
                    parts = pkg.split(".")
                    if node.level - 1 > len(parts):
                        raise T5Error(f"{path}: relative import beyond top level")
                    base = ".".join(parts[:len(parts) - (node.level - 1)])
                    target = base + ("." + node.module if node.module else "")
                else:
                    target = node.module or ""
                for a in node.names:
                    if a.name == "*":
                        if target.startswith("pint"):
                            self.imports.setdefault("*", []).append(target)
                        continue
                    self.imports[a.asname or a.name] = target + "." + a.name
            elif isinstance(node, ast.Import):
                for a in node.names:
                    if a.asname:
                        self.imports[a.asname] = a.name
                    else:
                        self.imports[a.name.split(".")[0]] = a.name.split(".")[0]
        top = set()
        for node in self.tree.body:
            if isinstance(node, ast.ClassDef):
                self.classes[node.name] = node
                top.add(id(node))
            elif isinstance(node, (ast.If, ast.Try)):
                for sub in ast.walk(node):
                    if isinstance(sub, ast.ClassDef):
                        self.nested.append(sub)
        for node in ast.walk(self.tree):
            if isinstance(node, ast.ClassDef) and id(node) not in top and node not in self.nested:
                self.nested.append(node)


def load_modules(repo: Path):
    root = repo / "pint"
    if not (root / "errors.py").exists():
        raise T5Error(f"{root}/errors.py not found")
    mods = {}
    for p in sorted(root.rglob("*.py")):
        rel = p.relative_to(repo)
        if "testsuite" in rel.parts:
            continue
        parts = list(rel.with_suffix("").parts)
        is_pkg = parts[-1] == "__init__"
        if is_pkg:
            parts = parts[:-1]
        mods[".".join(parts)] = Mod(".".join(parts), p, is_pkg)
    return mods


def dotted(node):
    if isinstance(node, ast.Name):
        return node.id
    if isinstance(node, ast.Attribute):
        d = dotted(node.value)
        return None if d is None else d + "." + node.attr
    if isinstance(node, ast.Subscript):       # Generic[...] style bases
        return dotted(node.value)
    return None


class Resolver:
    def __init__(self, mods):
        self.mods = mods

    def chase(self, target, depth=0):
        """dotted target -> ('class', qualname) | ('external', dotted)"""
        if depth > 12:
            raise T5Error(f"import chain too deep at {target}")
        parts = target.split(".")
        for i in range(len(parts), 0, -1):          # longest module prefix
            mname = ".".join(parts[:i])
            if mname in self.mods:
                rest = parts[i:]
                m = self.mods[mname]
                if not rest:
                    return ("module", mname)
                head = rest[0]
                if head in m.classes and len(rest) == 1:
                    return ("class", mname + "." + head)
                if head in m.imports:
                    return self.chase(".".join([m.imports[head]] + rest[1:]), depth + 1)
                for star in m.imports.get("*", []):
                    try:
                        r = self.chase(".".join([star] + rest), depth + 1)
                        if r[0] == "class":
                            return r
                    except T5Error:
                        pass
                if parts[0] == "pint":
                    return ("unknown", target)
        if parts[0] == "pint":
            return ("unknown", target)
        return ("external", target)

    def base(self, mod: Mod, node):
        d = dotted(node)
        if d is None:
            return ("unknown", ast.dump(node))
        head, _, rest = d.partition(".")
        if head in mod.classes and not rest:
            return ("class", mod.name + "." + head)
        if head in mod.imports:
            return self.chase(mod.imports[head] + ("." + rest if rest else ""))
        for star in mod.imports.get("*", []):
            r = self.chase(star + "." + d)
            if r[0] == "class":
                return r
        return ("external", d)          # builtins and anything not imported from pint


# ----------------------------------------------------------------------------- class analysis
def _const(node, where):
    if isinstance(node, ast.Constant):
        v = node.value
        if v is None:
            return "VNone"
        if isinstance(v, bool):
            return f"(VBool {'true' if v else 'false'})"
        if isinstance(v, str):
            return f"(VStr {coq_str(v)})"
        if isinstance(v, int):
            return f"(VInt ({v})%Z)"
    if isinstance(node, ast.UnaryOp) and isinstance(node.op, ast.USub) and isinstance(node.operand, ast.Constant) \
            and isinstance(node.operand.value, int):
        return f"(VInt (-{node.operand.value})%Z)"
    if isinstance(node, ast.Tuple) and not node.elts:
        return "(VStrs [])"
    raise T5Error(f"{where}: default value of an unsupported shape: {ast.dump(node)}")


def _is_docstring(stmt):
    return isinstance(stmt, ast.Expr) and isinstance(stmt.value, ast.Constant) and isinstance(stmt.value.value, str)


def _self_attr(node):
    if isinstance(node, ast.Attribute) and isinstance(node.value, ast.Name) and node.value.id == "self":
        return node.attr
    return None


def parse_init(fn: ast.FunctionDef, where):
    a = fn.args
    if a.vararg or a.kwarg or a.kwonlyargs or a.posonlyargs:
        raise T5Error(f"{where}.__init__: *args / **kwargs / keyword-only / positional-only parameters not supported")
    names = [x.arg for x in a.args]
    if not names or names[0] != "self":
        raise T5Error(f"{where}.__init__: first parameter is not self")
    names = names[1:]
    defaults = [None] * (len(names) - len(a.defaults)) + [_const(d, where) for d in a.defaults]
    params = list(zip(names, defaults))
    fields = []
    for st in fn.body:
        if _is_docstring(st) or isinstance(st, ast.Pass):
            continue
        # self.f = p
        if isinstance(st, (ast.Assign, ast.AnnAssign)):
            tgts = st.targets if isinstance(st, ast.Assign) else [st.target]
            if len(tgts) == 1 and _self_attr(tgts[0]) and isinstance(st.value, ast.Name) and st.value.id in names:
                fields.append((_self_attr(tgts[0]), f"(FParam {coq_str(st.value.id)})"))
                continue
        # if isinstance(p, str): self.f = (p,)  else: self.f = tuple(p)
        if isinstance(st, ast.If) and len(st.body) == 1 and len(st.orelse) == 1:
            t = st.test
            b, e = st.body[0], st.orelse[0]
            ok = (isinstance(t, ast.Call) and isinstance(t.func, ast.Name) and t.func.id == "isinstance"
                  and len(t.args) == 2 and isinstance(t.args[0], ast.Name) and t.args[0].id in names
                  and isinstance(t.args[1], ast.Name) and t.args[1].id == "str"
                  and isinstance(b, ast.Assign) and isinstance(e, ast.Assign)
                  and len(b.targets) == 1 and len(e.targets) == 1
                  and _self_attr(b.targets[0]) and _self_attr(b.targets[0]) == _self_attr(e.targets[0]))
            if ok:
                p = t.args[0].id
                bv, ev = b.value, e.value
                ok = (isinstance(bv, ast.Tuple) and len(bv.elts) == 1 and isinstance(bv.elts[0], ast.Name)
                      and bv.elts[0].id == p
                      and isinstance(ev, ast.Call) and isinstance(ev.func, ast.Name) and ev.func.id == "tuple"
                      and len(ev.args) == 1 and not ev.keywords and isinstance(ev.args[0], ast.Name)
                      and ev.args[0].id == p)
            if ok:
                fields.append((_self_attr(b.targets[0]), f"(FTupleOf {coq_str(p)})"))
                continue
        raise T5Error(f"{where}.__init__: statement of an unsupported shape at line {st.lineno}: "
                      f"{ast.unparse(st)[:80]}")
    seen = set()
    for f, _ in fields:
        if f in seen:
            raise T5Error(f"{where}.__init__: field {f} assigned twice")
        seen.add(f)
    return params, fields


def parse_reduce(fn: ast.FunctionDef, where):
    if [x.arg for x in fn.args.args] != ["self"] or fn.args.vararg or fn.args.kwarg or fn.args.kwonlyargs:
        raise T5Error(f"{where}.__reduce__: unexpected signature")
    body = [s for s in fn.body if not _is_docstring(s)]
    if len(body) != 1 or not isinstance(body[0], ast.Return) or not isinstance(body[0].value, ast.Tuple):
        raise T5Error(f"{where}.__reduce__: body is not a single `return cls, (args...)`")
    elts = body[0].value.elts
    if len(elts) not in (2, 3):
        raise T5Error(f"{where}.__reduce__: tuple of {len(elts)} elements")
    c = elts[0]
    cls_ok = (isinstance(c, ast.Attribute) and _self_attr(c) == "__class__") or \
             (isinstance(c, ast.Call) and isinstance(c.func, ast.Name) and c.func.id == "type"
              and len(c.args) == 1 and isinstance(c.args[0], ast.Name) and c.args[0].id == "self")
    if not cls_ok:
        raise T5Error(f"{where}.__reduce__: callable is not self.__class__")
    if not isinstance(elts[1], ast.Tuple):
        raise T5Error(f"{where}.__reduce__: argument tuple is not a literal tuple")
    args = []
    for e in elts[1].elts:
        f = _self_attr(e)
        if not f:
            raise T5Error(f"{where}.__reduce__: argument {ast.unparse(e)} is not self.<attr>")
        args.append(f)
    state = []
    if len(elts) == 3:
        d = elts[2]
        if not isinstance(d, ast.Dict):
            raise T5Error(f"{where}.__reduce__: state is not a literal dict")
        for k, v in zip(d.keys, d.values):
            if not (isinstance(k, ast.Constant) and isinstance(k.value, str) and _self_attr(v) == k.value):
                raise T5Error(f"{where}.__reduce__: state entry is not 'name': self.name")
            state.append(k.value)
    return args, state


def is_dataclass_deco(cd: ast.ClassDef, where):
    for d in cd.decorator_list:
        name = dotted(d.func if isinstance(d, ast.Call) else d)
        if name in ("dataclass", "dataclasses.dataclass"):
            if isinstance(d, ast.Call):
                for kw in d.keywords:
                    if kw.arg == "frozen":
                        continue
                    raise T5Error(f"{where}: dataclass option {kw.arg} not supported")
            return True
        raise T5Error(f"{where}: decorator {ast.unparse(d)} not supported on an exception class")
    return False


def dataclass_fields(cd: ast.ClassDef, where):
    out = []
    for st in cd.body:
        if isinstance(st, ast.AnnAssign) and isinstance(st.target, ast.Name):
            ann = ast.unparse(st.annotation)
            if "ClassVar" in ann or "InitVar" in ann:
                raise T5Error(f"{where}: ClassVar/InitVar dataclass fields not supported")
            if st.value is not None and isinstance(st.value, ast.Call):
                raise T5Error(f"{where}: dataclass field() specifiers not supported")
            out.append((st.target.id, None if st.value is None else _const(st.value, where)))
    return out


def c3(name, bases_of, memo, stack=()):
    if name in memo:
        return memo[name]
    if name in stack:
        raise T5Error(f"inheritance cycle at {name}")
    bases = bases_of.get(name, [])
    seqs = [list(c3(b, bases_of, memo, stack + (name,))) for b in bases] + [list(bases)]
    res = [name]
    while any(seqs):
        for s in seqs:
            if not s:
                continue
            cand = s[0]
            if not any(cand in t[1:] for t in seqs):
                break
        else:
            raise T5Error(f"inconsistent MRO for {name}")
        res.append(cand)
        for s in seqs:
            if s and s[0] == cand:
                del s[0]
    memo[name] = res
    return res


def _external_is_plain(ext):
    """Read the source of a known third-party base and make sure it does not define any
    construction / pickling hook of its own."""
    if ext not in EXTERNAL_SOURCES:
        raise T5Error(f"unknown external base class {ext}")
    pkg, fname, cname = EXTERNAL_SOURCES[ext]
    spec = importlib.util.find_spec(pkg)
    if spec is None or not spec.submodule_search_locations:
        raise T5Error(f"cannot locate the source of {pkg}")
    src = Path(list(spec.submodule_search_locations)[0]) / fname
    tree = ast.parse(src.read_text())
    for node in tree.body:
        if isinstance(node, ast.ClassDef) and node.name == cname:
            if [dotted(b) for b in node.bases] != ["Exception"]:
                raise T5Error(f"{ext}: bases changed")
            for st in node.body:
                if isinstance(st, ast.FunctionDef) and st.name in ({"__init__", "__reduce__"} | FORBIDDEN_HOOKS):
                    raise T5Error(f"{ext} defines {st.name}")
            return True
    raise T5Error(f"class {cname} not found in {src}")


def analyse(repo: Path = REPO):
    mods = load_modules(repo)
    rs = Resolver(mods)
    # all top-level classes with resolved bases
    bases_of, node_of, mod_of = {}, {}, {}
    for m in mods.values():
        for cname, cd in m.classes.items():
            q = m.name + "." + cname
            bs = []
            for b in cd.bases:
                kind, tgt = rs.base(m, b)
                if kind == "class":
                    bs.append(tgt)
                elif kind == "external":
                    bs.append("ext:" + tgt)
                else:
                    bs.append("unk:" + tgt)
            bases_of[q], node_of[q], mod_of[q] = bs, cd, m

    def ext_is_exception(e):
        e = e[4:]
        return e in BUILTIN_SIMPLE or e in BUILTIN_SPECIAL or e in EXTERNAL_SOURCES

    # exception classes: transitive closure from builtin exception bases, seeded in errors.py
    exn = set()
    changed = True
    while changed:
        changed = False
        for q, bs in bases_of.items():
            if q in exn:
                continue
            if any((b.startswith("ext:") and ext_is_exception(b)) or b in exn for b in bs):
                exn.add(q)
                changed = True
    roots = {q for q in exn if mod_of[q].name == "pint.errors"}
    if not roots:
        raise T5Error("no exception classes found in pint/errors.py")

    def reaches_root(q, seen=()):
        if q in roots:
            return True
        return any(b in exn and b not in seen and reaches_root(b, seen + (q,)) for b in bases_of.get(q, []))
    wanted = sorted(q for q in exn if reaches_root(q))
    # nested classes (inside functions / classes / if blocks) deriving from an exception: fail closed
    wanted_short = {q.rsplit(".", 1)[1] for q in wanted}
    for m in mods.values():
        for cd in m.nested:
            for b in cd.bases:
                d = dotted(b) or ""
                if d.split(".")[-1] in wanted_short or d.split(".")[-1] in ("PintError",):
                    raise T5Error(f"{m.path}: nested exception class {cd.name} (line {cd.lineno}) not supported")
    for q in wanted:
        for b in bases_of[q]:
            if b.startswith("unk:"):
                raise T5Error(f"{q}: base {b[4:]} cannot be resolved")
            if b.startswith("ext:") and not ext_is_exception(b) and b[4:] not in ("Generic", "object"):
                raise T5Error(f"{q}: external base {b[4:]} is not a known exception class")
    memo = {}
    out = []
    for q in wanted:
        mro = c3(q, bases_of, memo)
        # own definitions per class in the MRO
        init = red = None
        for c in mro:
            if c.startswith("ext:"):
                e = c[4:]
                if e in ("Generic", "object"):
                    continue
                if e in BUILTIN_SIMPLE:
                    if init is None:
                        init = ("varargs", "builtins." + e)
                    continue                       # no __reduce__ of their own
                if e in EXTERNAL_SOURCES:
                    _external_is_plain(e)
                    continue                       # defines neither; lookup goes on
                if e in BUILTIN_SPECIAL:
                    if init is None or red is None:
                        raise T5Error(f"{q}: would inherit __init__/__reduce__ from builtin {e}, which has its own protocol")
                    continue
                raise T5Error(f"{q}: external class {e} in the MRO")
            cd = node_of[c]
            where = c
            dc = is_dataclass_deco(cd, where)
            for st in cd.body:
                if isinstance(st, (ast.FunctionDef, ast.AsyncFunctionDef)) and st.name in FORBIDDEN_HOOKS:
                    raise T5Error(f"{where}: defines {st.name}; not supported by the exception model")
                if isinstance(st, ast.Assign):
                    for t in st.targets:
                        if isinstance(t, ast.Name) and t.id in ({"__init__", "__reduce__"} | FORBIDDEN_HOOKS):
                            raise T5Error(f"{where}: {t.id} assigned at class level")
            fns = {st.name: st for st in cd.body if isinstance(st, ast.FunctionDef)}
            if init is None:
                if "__init__" in fns:
                    if dc:
                        raise T5Error(f"{where}: dataclass with an explicit __init__")
                    init = ("explicit", c) + parse_init(fns["__init__"], where)
                elif dc:
                    # dataclass-generated __init__: fields of all dataclass bases, base-first
                    flds = []
                    for anc in reversed(mro):
                        if anc.startswith("ext:"):
                            continue
                        if is_dataclass_deco(node_of[anc], anc):
                            for n, d in dataclass_fields(node_of[anc], anc):
                                flds = [x for x in flds if x[0] != n] + [(n, d)]
                    seen_default = False
                    for n, d in flds:
                        if d is not None:
                            seen_default = True
                        elif seen_default:
                            raise T5Error(f"{where}: non-default dataclass field after a default one")
                    init = ("explicit", c, flds, [(n, f"(FParam {coq_str(n)})") for n, _ in flds])
            if red is None and "__reduce__" in fns:
                red = (c,) + parse_reduce(fns["__reduce__"], where)
        if init is None:
            raise T5Error(f"{q}: no __init__ found along the MRO")
        out.append({"qual": q, "mro": mro, "init": init, "reduce": red})
    return out


# ----------------------------------------------------------------------------- emission
def table_entries(info):
    rows = []
    for c in info:
        init, red = c["init"], c["reduce"]
        if init[0] == "varargs":
            varargs, params, fields, iowner = True, [], [], init[1]
        else:
            varargs, iowner = False, init[1]
            params, fields = init[2], init[3]
        if red is None:
            r, rowner, state = "RDefault", "builtins.BaseException", []
        else:
            rowner, args, state = red
            r = "(RFields " + coq_list([coq_str(a) for a in args]) + ")"
        rows.append({
            "qual": c["qual"], "varargs": varargs, "params": params, "fields": fields,
            "reduce": r, "reduce_args": None if red is None else red[1], "state": state,
            "init_owner": iowner, "reduce_owner": rowner,
        })
    return rows


def emit(rows):
    lines = ["(* GENERATED by harness/t5_errors.py from /repo/pint (errors.py and every subclass of its",
             "   exception classes elsewhere in the package).  Do not edit; regenerated on every check. *)",
             "From PintV Require Import Model.Serial.",
             "Open Scope string_scope.",
             "",
             "Definition errors_table : list exn_class := ["]
    ents = []
    for r in rows:
        ps = coq_list([f"({coq_str(n)}, {coq_opt(d)})" for n, d in r["params"]])
        fs = coq_list([f"({coq_str(n)}, {e})" for n, e in r["fields"]])
        st = coq_list([coq_str(s) for s in r["state"]])
        ents.append(f"  (* __init__ from {r['init_owner']}; __reduce__ from {r['reduce_owner']} *)\n"
                    f"  ExnClass {coq_str(r['qual'])} {'true' if r['varargs'] else 'false'}\n"
                    f"    {ps}\n    {fs}\n    {r['reduce']} {st}")
    lines.append(";\n".join(ents))
    lines.append("].")
    lines.append("")
    return "\n".join(lines)


def generate(ck=None):
    rows = table_entries(analyse(REPO))
    return {"Gen/ErrorsTable.v": emit(rows)}


def table(repo: Path = REPO):
    """the table as Python data, for the harness (argument generators, field lists)"""
    return table_entries(analyse(repo))


if __name__ == "__main__":
    import json
    import sys
    rows = table()
    if "--json" in sys.argv:
        print(json.dumps(rows, indent=1))
    else:
        print(emit(rows))
