"""T7 — fail-closed translator: pint's built-in unit formats -> coq/Gen/FormatParams.v.

Read with Python's `ast` only (pint is never imported here):

  * pint/delegates/formatter/_format_helpers.py
      - the defaults of `formatter(...)`'s keyword parameters,
      - `_PRETTY_EXPONENTS` (the superscript translation table),
      - that `pretty_fmt_exponent` is the `{num:n}` / '-'->'⁻' / '.'->U+22C5 / digit loop it is
        modelled as (shape check only).
  * pint/delegates/formatter/{plain,html,latex}.py
      - for DefaultFormatter (D), CompactFormatter (C), PrettyFormatter (P), HTMLFormatter (H),
        LatexFormatter (L): the keyword arguments of the single `formatter(...)` call inside
        `format_unit`.  A keyword given as a local name (`division_fmt`) is resolved to the string
        the function assigns when no locale is requested (an unconditional constant assignment,
        or the `else:` branch of `if babel_kwds.get("locale", None):`).
      - for SIunitxFormatter (Lx): that `format_unit` calls `siunitx_format_unit(units, registry)`.
  * pint/delegates/formatter/full.py
      - `FullFormatter.dim_order` (tuple literal), `default_sort_func`, `default_format`,
      - the `self._formatters[<spec>] = <Class>(registry)` table of `__init__` in source order
        (the order is observable: `get_formatter` returns the first key contained in the spec).

Anything of another shape raises T7Error -> the check reports the obligation as broken.
"""
from __future__ import annotations

import ast

from .common import REPO, coq_bool, coq_list, coq_str


class T7Error(Exception):
    pass


FMT_DIR = REPO / "pint" / "delegates" / "formatter"
CLASSES = {"D": ("plain.py", "DefaultFormatter"), "C": ("plain.py", "CompactFormatter"),
           "P": ("plain.py", "PrettyFormatter"), "H": ("html.py", "HTMLFormatter"),
           "L": ("latex.py", "LatexFormatter")}
KW = ["as_ratio", "single_denominator", "product_fmt", "division_fmt", "power_fmt", "parentheses_fmt", "exp_call"]


def _parse(name):
    p = FMT_DIR / name
    try:
        return ast.parse(p.read_text(encoding="utf-8"), filename=str(p))
    except (OSError, SyntaxError) as e:
        raise T7Error(f"cannot read {p}: {e}")


def _top(tree, kind, name):
    hits = [n for n in tree.body if isinstance(n, kind) and getattr(n, "name", None) == name]
    if len(hits) != 1:
        raise T7Error(f"expected exactly one top-level {kind.__name__} {name}, found {len(hits)}")
    return hits[0]


def _method(cls, name):
    hits = [n for n in cls.body if isinstance(n, ast.FunctionDef) and n.name == name]
    if len(hits) != 1:
        raise T7Error(f"{cls.name}.{name}: expected exactly one definition")
    return hits[0]


def _const(node, types, what):
    if isinstance(node, ast.Constant) and type(node.value) is types:
        return node.value
    raise T7Error(f"{what}: not a literal of type {types}: {ast.dump(node)[:120]}")


def _is_locale_test(node):
    """babel_kwds.get("locale", None)"""
    return (isinstance(node, ast.Call) and isinstance(node.func, ast.Attribute) and node.func.attr == "get"
            and isinstance(node.func.value, ast.Name) and node.func.value.id == "babel_kwds"
            and len(node.args) == 2 and isinstance(node.args[0], ast.Constant) and node.args[0].value == "locale"
            and isinstance(node.args[1], ast.Constant) and node.args[1].value is None and not node.keywords)


def _resolve_local(fn, name, where):
    """value of local `name` on the no-locale path of `fn` (top-level statements only)"""
    found = []
    for st in fn.body:
        if isinstance(st, ast.Assign) and len(st.targets) == 1 and isinstance(st.targets[0], ast.Name) \
                and st.targets[0].id == name:
            found.append(_const(st.value, str, f"{where}: {name}"))
        elif isinstance(st, ast.If):
            assigns = [s for s in ast.walk(st) if isinstance(s, (ast.Assign, ast.AugAssign, ast.AnnAssign))
                       and any(isinstance(t, ast.Name) and t.id == name
                               for t in (s.targets if isinstance(s, ast.Assign) else [s.target]))]
            if not assigns:
                continue
            if not _is_locale_test(st.test):
                raise T7Error(f"{where}: {name} assigned under an unrecognised condition")
            els = [s for s in st.orelse if isinstance(s, ast.Assign) and len(s.targets) == 1
                   and isinstance(s.targets[0], ast.Name) and s.targets[0].id == name]
            if len(els) != 1 or len(st.orelse) != 1:
                raise T7Error(f"{where}: else-branch of the locale test does not just assign {name}")
            found.append(_const(els[0].value, str, f"{where}: {name}"))
        else:
            for s in ast.walk(st):
                if isinstance(s, ast.Name) and s.id == name and isinstance(s.ctx, ast.Store):
                    raise T7Error(f"{where}: {name} assigned in an unrecognised statement")
    if len(found) != 1:
        raise T7Error(f"{where}: expected exactly one assignment of {name}, found {len(found)}")
    return found[0]


def _formatter_defaults():
    tree = _parse("_format_helpers.py")
    fn = _top(tree, ast.FunctionDef, "formatter")
    args = fn.args
    if args.vararg or args.kwarg or args.kwonlyargs or args.posonlyargs:
        raise T7Error("formatter(): unexpected parameter kinds")
    names = [a.arg for a in args.args]
    if names != ["numerator", "denominator"] + KW:
        raise T7Error(f"formatter(): parameters are {names}")
    defaults = dict(zip(names[-len(args.defaults):], args.defaults))
    out = {}
    for k in KW:
        if k not in defaults:
            raise T7Error(f"formatter(): {k} has no default")
        out[k] = _kwvalue(k, defaults[k], None, "formatter() default")
    # superscript table
    pe = [n for n in tree.body if isinstance(n, ast.Assign) and len(n.targets) == 1
          and isinstance(n.targets[0], ast.Name) and n.targets[0].id == "_PRETTY_EXPONENTS"]
    if len(pe) != 1:
        raise T7Error("_PRETTY_EXPONENTS: expected one assignment")
    table = _const(pe[0].value, str, "_PRETTY_EXPONENTS")
    if len(table) != 10:
        raise T7Error("_PRETTY_EXPONENTS must have ten characters")
    # shape of pretty_fmt_exponent
    pf = _top(tree, ast.FunctionDef, "pretty_fmt_exponent")
    src = ast.unparse(pf)
    want = ["ret = f'{num:n}'.replace('-', '⁻').replace('.', '⋅')",
            "for n in range(10):", "ret = ret.replace(str(n), _PRETTY_EXPONENTS[n])", "return ret"]
    body = [l.strip() for l in src.splitlines()[1:] if l.strip() and not l.strip().startswith(('"""', "'''"))]
    body = [l for l in body if not l.startswith("Format an number")]
    if body != want:
        raise T7Error(f"pretty_fmt_exponent has an unrecognised body: {body}")
    # shape of join_u is part of the hand-written model; record its regular expression
    jr = [n for n in tree.body if isinstance(n, ast.Assign) and len(n.targets) == 1
          and isinstance(n.targets[0], ast.Name) and n.targets[0].id == "_JOIN_REG_EXP"]
    if len(jr) != 1 or ast.unparse(jr[0].value) != "re.compile('{\\\\d*}')":
        raise T7Error("_JOIN_REG_EXP is not re.compile(r'{\\d*}')")
    return out, table


def _kwvalue(k, node, fn, where):
    if k in ("as_ratio", "single_denominator"):
        return _const(node, bool, f"{where}: {k}")
    if k == "exp_call":
        # "{:n}".format  or  pretty_fmt_exponent
        if isinstance(node, ast.Name) and node.id == "pretty_fmt_exponent":
            return True
        if isinstance(node, ast.Attribute) and node.attr == "format" and isinstance(node.value, ast.Constant) \
                and node.value.value == "{:n}":
            return False
        raise T7Error(f"{where}: exp_call is neither '{{:n}}'.format nor pretty_fmt_exponent")
    if isinstance(node, ast.Name):
        if fn is None:
            raise T7Error(f"{where}: {k} is a name")
        return _resolve_local(fn, node.id, where)
    return _const(node, str, f"{where}: {k}")


def _class_params(spec, defaults):
    fname, cname = CLASSES[spec]
    cls = _top(_parse(fname), ast.ClassDef, cname)
    fn = _method(cls, "format_unit")
    calls = [n for n in ast.walk(fn) if isinstance(n, ast.Call) and isinstance(n.func, ast.Name)
             and n.func.id == "formatter"]
    where = f"{cname}.format_unit"
    if len(calls) != 1:
        raise T7Error(f"{where}: expected exactly one formatter(...) call, found {len(calls)}")
    call = calls[0]
    if len(call.args) != 2 or not all(isinstance(a, ast.Name) for a in call.args) \
            or [a.id for a in call.args] != ["numerator", "denominator"]:
        raise T7Error(f"{where}: positional arguments of formatter are not (numerator, denominator)")
    got = dict(defaults)
    for kw in call.keywords:
        if kw.arg not in KW:
            raise T7Error(f"{where}: unknown keyword {kw.arg}")
        got[kw.arg] = _kwvalue(kw.arg, kw.value, fn, where)
    # the call that prepares numerator / denominator
    prep = [n for n in ast.walk(fn) if isinstance(n, ast.Call) and isinstance(n.func, ast.Name)
            and n.func.id == "prepare_compount_unit"]
    if len(prep) != 1:
        raise T7Error(f"{where}: expected one prepare_compount_unit call")
    pk = {k.arg for k in prep[0].keywords}
    if "as_ratio" in pk:
        raise T7Error(f"{where}: prepare_compount_unit called with as_ratio")
    return got


def _siunitx():
    cls = _top(_parse("latex.py"), ast.ClassDef, "SIunitxFormatter")
    fn = _method(cls, "format_unit")
    calls = [n for n in ast.walk(fn) if isinstance(n, ast.Call) and isinstance(n.func, ast.Name)
             and n.func.id == "siunitx_format_unit"]
    if len(calls) != 1 or [ast.unparse(a) for a in calls[0].args] != ["units", "registry"] or calls[0].keywords:
        raise T7Error("SIunitxFormatter.format_unit does not call siunitx_format_unit(units, registry)")
    if any(isinstance(n, ast.Call) and isinstance(n.func, ast.Name) and n.func.id == "formatter" for n in ast.walk(fn)):
        raise T7Error("SIunitxFormatter.format_unit calls formatter()")


def _full():
    cls = _top(_parse("full.py"), ast.ClassDef, "FullFormatter")
    dim_order = default_format = sort_func = None
    for st in cls.body:
        tgt = st.target if isinstance(st, ast.AnnAssign) else (st.targets[0] if isinstance(st, ast.Assign) and len(st.targets) == 1 else None)
        if not isinstance(tgt, ast.Name) or st.value is None:
            continue
        if tgt.id == "dim_order":
            if not isinstance(st.value, ast.Tuple):
                raise T7Error("FullFormatter.dim_order is not a tuple literal")
            dim_order = [_const(e, str, "dim_order element") for e in st.value.elts]
        elif tgt.id == "default_format":
            default_format = _const(st.value, str, "FullFormatter.default_format")
        elif tgt.id == "default_sort_func":
            v = st.value
            if isinstance(v, ast.Call) and isinstance(v.func, ast.Name) and v.func.id == "staticmethod" \
                    and len(v.args) == 1 and isinstance(v.args[0], ast.Name):
                sort_func = v.args[0].id
            elif isinstance(v, ast.Constant) and v.value is None:
                sort_func = "None"
            else:
                raise T7Error("FullFormatter.default_sort_func has an unrecognised value")
    if dim_order is None or default_format is None or sort_func is None:
        raise T7Error("FullFormatter: dim_order / default_format / default_sort_func not found")
    if sort_func not in ("sort_by_unit_name", "sort_by_display_name", "sort_by_dimensionality", "None"):
        raise T7Error(f"unknown default sort function {sort_func}")
    init = _method(cls, "__init__")
    order = []
    for st in ast.walk(init):
        if isinstance(st, ast.Assign) and len(st.targets) == 1 and isinstance(st.targets[0], ast.Subscript):
            t = st.targets[0]
            if isinstance(t.value, ast.Attribute) and t.value.attr == "_formatters":
                key = _const(t.slice, str, "_formatters key")
                v = st.value
                if not (isinstance(v, ast.Call) and isinstance(v.func, ast.Name) and len(v.args) == 1
                        and isinstance(v.args[0], ast.Name) and v.args[0].id == "registry" and not v.keywords):
                    raise T7Error(f"_formatters[{key!r}] is not <Class>(registry)")
                order.append((key, v.func.id))
    want = {spec: c for spec, (_, c) in CLASSES.items()}
    want["Lx"] = "SIunitxFormatter"
    got = dict(order)
    for spec, c in want.items():
        if got.get(spec) != c:
            raise T7Error(f"FullFormatter._formatters[{spec!r}] is {got.get(spec)}, expected {c}")
    if len(got) != len(order):
        raise T7Error("FullFormatter.__init__ assigns a formatter key twice")
    return dim_order, default_format, sort_func, order


def read_all():
    defaults, table = _formatter_defaults()
    params = {spec: _class_params(spec, defaults) for spec in CLASSES}
    _siunitx()
    dim_order, default_format, sort_func, order = _full()
    return {"defaults": defaults, "params": params, "table": table, "dim_order": dim_order,
            "default_format": default_format, "sort_func": sort_func, "order": order}


def _rec(p):
    return ("(FParams " + " ".join([coq_bool(p["as_ratio"]), coq_bool(p["single_denominator"]),
                                    coq_str(p["product_fmt"]), coq_str(p["division_fmt"]),
                                    coq_str(p["power_fmt"]), coq_str(p["parentheses_fmt"]),
                                    coq_bool(p["exp_call"])]) + ")")


def generate(ck=None):
    d = read_all()
    out = ["(* generated by harness/t7_format.py from pint/delegates/formatter/*.py — do not edit *)",
           "From Coq Require Import String List Bool.", "Import ListNotations.", "Open Scope string_scope.", "",
           "(** keyword arguments of [formatter(...)]; [fp_exp_pretty] = exp_call is pretty_fmt_exponent",
           "    (otherwise [\"{:n}\".format]) *)",
           "Record fparams := FParams {",
           "  fp_as_ratio : bool; fp_single_denominator : bool;",
           "  fp_product : string; fp_division : string; fp_power : string; fp_paren : string;",
           "  fp_exp_pretty : bool }.", "",
           f"Definition fp_default : fparams := {_rec(d['defaults'])}."]
    for spec in CLASSES:
        out.append(f"Definition fp_{spec} : fparams := {_rec(d['params'][spec])}.   (* {CLASSES[spec][1]} *)")
    out += ["",
            "(** [_PRETTY_EXPONENTS]: digit n ↦ its superscript *)",
            f"Definition pretty_exponents : list string := {coq_list([coq_str(c) for c in d['table']])}.",
            "(** [FullFormatter.dim_order] *)",
            f"Definition dim_order : list string := {coq_list([coq_str(c) for c in d['dim_order']])}.",
            f"Definition full_default_format : string := {coq_str(d['default_format'])}.",
            f"Definition full_default_sort_func : string := {coq_str(d['sort_func'])}.",
            "(** [FullFormatter._formatters] in insertion order: (spec key, class) *)",
            "Definition formatter_order : list (string * string) := "
            + coq_list([f"({coq_str(k)}, {coq_str(c)})" for k, c in d["order"]]) + ".", ""]
    return {"Gen/FormatParams.v": "\n".join(out)}


if __name__ == "__main__":
    print(generate()["Gen/FormatParams.v"])
