"""data/standards.tsv (hand-curated, independent of /repo) -> coq/Gen/Standards.v  (property C20).

Trivial and fail-closed: every field is validated; an unreadable row aborts generation.
The list of rows excused by a listed finding (`rows` of the status=known entries of
known_findings/C20.json) is emitted as `known_deviations`: the Coq guard and the findings file
cannot drift apart.
"""
from __future__ import annotations

import json
import re
from fractions import Fraction as F

from .common import VERIF, coq_list, coq_opt, coq_q, coq_str

TSV = VERIF / "data" / "standards.tsv"
KNOWN = VERIF / "known_findings" / "C20.json"

DIMS = {"L": "[length]", "M": "[mass]", "T": "[time]", "I": "[current]", "Th": "[temperature]",
        "N": "[substance]", "J": "[luminosity]"}
SI_UNIT = {"[length]": "meter", "[mass]": "kilogram", "[time]": "second", "[current]": "ampere",
           "[temperature]": "kelvin", "[substance]": "mole", "[luminosity]": "candela"}
CGS_UNIT = {"[length]": "centimeter", "[mass]": "gram", "[time]": "second"}


class StdError(Exception):
    pass


_NUM = re.compile(r"-?(?:\d+\.?\d*|\.\d+)(?:[eE][+-]?\d+)?")


def number(s: str) -> F:
    if not _NUM.fullmatch(s):
        raise StdError(f"bad number {s!r}")
    return F(s)


def expr(s: str) -> F:
    """rational expression: decimal literals, * and / left to right, ^integer binds tighter"""
    toks = re.findall(r"[*/]|[^*/]+", s.replace(" ", ""))
    if not toks or toks[0] in "*/" or len(toks) % 2 == 0:
        raise StdError(f"bad expression {s!r}")

    def atom(t):
        if "^" in t:
            b, e = t.split("^")
            if not re.fullmatch(r"-?\d+", e):
                raise StdError(f"bad exponent in {t!r}")
            return number(b) ** int(e)
        return number(t)
    v = atom(toks[0])
    for op, t in zip(toks[1::2], toks[2::2]):
        v = v * atom(t) if op == "*" else v / atom(t)
    return v


def sig_digits(s: str) -> tuple[int, int]:
    """(number of significant digits, decimal exponent of the last written digit) of a decimal literal"""
    m = re.fullmatch(r"-?(\d+)(?:\.(\d*))?(?:[eE]([+-]?\d+))?", s)
    if not m:
        raise StdError(f"approx/float rows need a plain decimal literal, got {s!r}")
    ip, fp, ex = m.group(1), m.group(2) or "", int(m.group(3) or 0)
    digits = (ip + fp).lstrip("0")
    return len(digits), ex - len(fp)


def unescape(s: str) -> str:
    return re.sub(r"\\u([0-9a-fA-F]{4})", lambda m: chr(int(m.group(1), 16)), s)


def dims(s: str) -> dict:
    if s == "1":
        return {}
    out = {}
    for t in s.split():
        m = re.fullmatch(r"(Th|[LMTINJ])(-?\d+(?:/\d+)?)", t)
        if not m or DIMS[m.group(1)] in out:
            raise StdError(f"bad dimension token {t!r}")
        e = F(m.group(2))
        if e == 0:
            raise StdError(f"zero exponent {t!r}")
        out[DIMS[m.group(1)]] = e
    return out


def load():
    """-> (rows, prefixes); each a list of dicts"""
    rows, prefixes, seen = [], [], set()
    for no, line in enumerate(TSV.read_text(encoding="utf-8").splitlines(), 1):
        if not line.strip() or line.startswith("#"):
            continue
        f = line.split("\t")
        if len(f) != 8:
            raise StdError(f"line {no}: expected 8 TAB separated fields, got {len(f)}")
        name, kind, factor, basis, dm, sym, off, src = (x.strip() for x in f)
        if not re.fullmatch(r"\w+", name) or name in seen:
            raise StdError(f"line {no}: bad or duplicate name {name!r}")
        seen.add(name)
        if not src:
            raise StdError(f"line {no}: no source annotation")
        syms = [] if sym == "-" else [unescape(x) for x in sym.split("|")]
        if any(not x for x in syms):
            raise StdError(f"line {no}: empty symbol")
        try:
            if kind == "prefix":
                m = re.fullmatch(r"(10|2)\^(-?\d+)", factor)
                if not m or (basis, dm, off) != ("-", "-", "-") or not syms:
                    raise StdError("bad prefix row")
                prefixes.append(dict(name=name, syms=syms, base=int(m.group(1)), exp=int(m.group(2)),
                                     value=F(int(m.group(1))) ** int(m.group(2)), source=src, line=no))
                continue
            if basis not in ("SI", "CGS"):
                raise StdError("basis must be SI or CGS")
            d = dims(dm)
            if basis == "SI" and d.get("[mass]", F(0)).denominator != 1:
                raise StdError("SI rows need an integer mass exponent")
            if basis == "CGS" and ((2 * d.get("[length]", F(0))).denominator != 1 or set(d) - set(CGS_UNIT)):
                raise StdError("CGS rows are over L M T with 2L integer")
            value = expr(factor)
            if kind == "exact":
                k, tol, digits = "KExact", F(0), None
            else:
                m = re.fullmatch(r"(approx|float):(\d+)", kind)
                if not m:
                    raise StdError(f"bad kind {kind!r}")
                n, last = sig_digits(factor)
                if n != int(m.group(2)):
                    raise StdError(f"{factor} has {n} significant digits, row says {m.group(2)}")
                k, tol, digits = ("KApprox" if m.group(1) == "approx" else "KFloat"), F(10) ** last / 2, n
            offset = None if off == "-" else expr(off)
            scale = F(1000) ** d.get("[mass]", F(0)).numerator if basis == "SI" \
                else F(1, 10) ** int(2 * d.get("[length]", F(0)))
            rows.append(dict(name=name, kind=k, factor=value, tol=tol, digits=digits, basis=basis, dims=d,
                             syms=syms, offset=offset, source=src, line=no, factor_text=factor,
                             root=value * scale, root_tol=tol * scale))
        except StdError as e:
            raise StdError(f"line {no} ({name}): {e}") from None
    if not rows or not prefixes:
        raise StdError("empty table")
    return rows, prefixes


def known_deviation_rows():
    if not KNOWN.exists():
        return []
    out = []
    for f in json.loads(KNOWN.read_text()).get("findings", []):
        if f.get("status") == "known":
            out += f.get("rows", [])
    return sorted(set(out))


def coq_dims(d):
    return coq_list([f"({coq_str(k)}, {coq_q(v)})" for k, v in sorted(d.items())])


def emit(rows, prefixes, deviations):
    out = ["(* generated by harness/t_standards.py from data/standards.tsv — do not edit *)",
           "From PintV Require Import Model.UC Model.Eval Model.Registry Model.Standards.",
           "Open Scope string_scope.",
           "Definition standards : list srow := ["]
    out.append(";\n".join(
        f"  SRow {coq_str(r['name'])} {r['kind']} {coq_q(r['factor'])} {coq_q(r['tol'])} "
        f"{'BSI' if r['basis'] == 'SI' else 'BCGS'} {coq_dims(r['dims'])} "
        f"{coq_list([coq_str(s) for s in r['syms']])} "
        f"{coq_opt(None if r['offset'] is None else coq_q(r['offset']))}" for r in rows))
    out.append("].")
    out.append("Definition std_prefixes : list sprefix := [")
    out.append(";\n".join(
        f"  SPrefix {coq_str(p['name'])} {coq_list([coq_str(s) for s in p['syms']])} "
        f"{p['base']}%Z ({p['exp']})%Z" for p in prefixes))
    out.append("].")
    out.append("(* rows excused by a status=known entry of known_findings/C20.json *)")
    out.append(f"Definition known_deviations : list string := {coq_list([coq_str(n) for n in deviations])}.")
    return "\n".join(out) + "\n"


def selftest():
    """the translator's own arithmetic on a miniature input (fail-closed)"""
    assert expr("231*0.0254^3/4") == F(231) * F(254, 10000) ** 3 / 4
    assert expr("1e-21/299792458") == F(1, 10 ** 21) / 299792458
    assert expr("-2.5e1") == F(-25) and expr("10^-3") == F(1, 1000)
    assert sig_digits("6.67430e-11") == (6, -16) and sig_digits("10973731.568157") == (14, -6)
    assert sig_digits("-2.00231930436092") == (15, -14) and sig_digits("1.00000000000") == (12, -11)
    assert dims("L-1/2 M1/2 T-1") == {"[length]": F(-1, 2), "[mass]": F(1, 2), "[time]": F(-1)} and dims("1") == {}
    assert unescape("\\u03a9") == "\u03a9"
    for bad in ("1+2", "2**3", "*2", "1/", "a"):
        try:
            expr(bad)
        except (StdError, ZeroDivisionError):
            continue
        raise StdError(f"selftest: {bad!r} accepted")


def generate(ck=None):
    selftest()
    rows, prefixes = load()
    names = {r["name"] for r in rows}
    dev = known_deviation_rows()
    for n in dev:
        if n not in names:
            raise StdError(f"known_findings/C20.json excuses row {n!r} which is not in the table")
    return {"Gen/Standards.v": emit(rows, prefixes, dev)}
