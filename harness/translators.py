"""Translators: regenerate coq/Gen/*.v from /repo's working tree (fail-closed)."""
from .common import COQ, REPO


def write_if_changed(path, text):
    path.parent.mkdir(exist_ok=True)
    if not path.exists() or path.read_text() != text:
        path.write_text(text)
        return True
    return False


GENERATORS = []   # list of (name, function(check) -> {relative path: text})

from . import t1_defs  # noqa: E402
GENERATORS.append(("T1 definition files", t1_defs.generate))


def regenerate_all(ck):
    try:
        texts = {}
        for name, fn in GENERATORS:
            for rel, text in fn(ck).items():
                write_if_changed(COQ / rel, text)
                texts[rel] = text
        ck._gen_texts = texts      # what THIS check generated from ITS source (see Check.finish)
    except Exception as e:  # fail closed
        return False, f"{type(e).__name__}: {e}"
    return True, ""

from . import t3_numpy  # noqa: E402  T3: pint/facets/numpy/numpy_func.py -> Gen/NumpyTables.v
GENERATORS.append(("T3 numpy tables", t3_numpy.generate))

from . import t5_errors  # noqa: E402  T5: pint exception classes (errors.py + subclasses) -> Gen/ErrorsTable.v
GENERATORS.append(("T5 exception classes", t5_errors.generate))

from . import t7_format  # noqa: E402  T7: pint/delegates/formatter/*.py -> Gen/FormatParams.v
GENERATORS.append(("T7 format parameters", t7_format.generate))

from . import t4_converters  # noqa: E402  T4: converter classes -> Gen/Converters.v
GENERATORS.append(("T4 converter formulas", t4_converters.generate))

from . import t2_eval  # noqa: E402  T2: pint/pint_eval.py operator tables + static call scan -> Gen/EvalTables.v
GENERATORS.append(("T2 evaluator tables", t2_eval.generate))

from . import t_standards  # noqa: E402  data/standards.tsv (hand-curated, C20) -> Gen/Standards.v
GENERATORS.append(("standards table", t_standards.generate))
