#!/bin/bash
# Build the whole Coq development from files on disk (offline), regenerating coq/Gen from /repo.
set -e
cd "$(dirname "$0")"
export PYTHONPATH="${PINT_REPO:-/repo}:$(pwd)" PYTHONHASHSEED=0 PYTHONDONTWRITEBYTECODE=1
mkdir -p build evidence replays
/venv/bin/python -m harness.setup_build
