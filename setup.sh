#!/bin/bash
# Build the whole Coq development from files on disk (offline), regenerating coq/Gen from /repo.
set -e
cd "$(dirname "$0")"
export PYTHONPATH="${PINT_REPO:-/repo}:$(pwd)" PYTHONHASHSEED=0 PYTHONDONTWRITEBYTECODE=1
mkdir -p build evidence replays
# pint's user-level disk cache (cache_folder=":auto:", used by one test) is keyed by file content but stores
# absolute paths; entries written from scratch worktrees make /repo's test_diskcache.py::test_auto fail
rm -rf "${XDG_CACHE_HOME:-$HOME/.cache}/pint"
/venv/bin/python -m harness.setup_build
