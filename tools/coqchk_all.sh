#!/bin/bash
# Re-check every compiled Properties module (and everything it depends on) with Coq's independent
# checker and list the axioms the whole context relies on.  Several minutes, several GB.
cd "$(dirname "$0")/../coq" || exit 1
mods=$(ls Properties/C*.v | sed 's#Properties/\(.*\)\.v#PintV.Properties.\1#')
timeout 7200 coqchk -o -silent -Q . PintV $mods 2>&1 | tee ../evidence/coqchk.txt | tail -30
