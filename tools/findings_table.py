#!/usr/bin/env python3
"""Prints the markdown table of DESIGN.md §10 from known_findings/*.json (C16's per-function entries grouped by id)."""
import glob, json, re
rows = {}
for f in sorted(glob.glob("/verif/known_findings/C*.json")):
    prop = f.split("/")[-1][:3]
    for x in json.load(open(f))["findings"]:
        fid = re.match(r"F\d+[a-z]?", x["id"]).group(0)
        key = (fid, prop)
        desc = re.sub(r"^fixed: property=C\d+ [0-9a-f]+ ", "", x["description"]).replace("|", "/").replace("\n", " ")
        r = rows.setdefault(key, {"status": x["status"], "commits": [], "desc": desc, "n": 0})
        r["n"] += 1
        if x.get("commit") and x["commit"] not in r["commits"]:
            r["commits"].append(x["commit"])
print("| id | property | status | what fails (concrete input) |")
print("|----|----------|--------|-----------------------------|")
for (fid, prop), r in sorted(rows.items(), key=lambda kv: (kv[0][1], int(re.sub(r"\D", "", kv[0][0])))):
    st = "fixed " + ", ".join(r["commits"]) if r["status"] == "fixed" else "known"
    extra = f" ({r['n']} entries, one per function)" if r["n"] > 1 else ""
    print(f"| {fid} | {prop} | {st} | {r['desc'][:230]}{extra} |")
