#!/usr/bin/env python3
"""tools/mark_fixed.py Cnn Fid=<commit-subject-substring> ...  — flip known findings to fixed with the commit id"""
import json, subprocess, sys
prop = sys.argv[1]
log = subprocess.run("git -C /repo log --format='%h %s' -40", shell=True, capture_output=True, text=True).stdout.splitlines()
p = f"/verif/known_findings/{prop}.json"
d = json.load(open(p))
for arg in sys.argv[2:]:
    fid, sub = arg.split("=", 1)
    commit = [l.split()[0] for l in log if sub in l][0]
    for f in d["findings"]:
        k = f["id"].split("-")[0].split(":")[0]
        if k == fid and f["status"] == "known":
            f["status"] = "fixed"; f["commit"] = commit
            f["description"] = f"fixed: property={prop} {commit} " + f["description"]
json.dump(d, open(p, "w"), indent=1, ensure_ascii=False)
print(prop, [(f["id"], f["status"]) for f in d["findings"]])
