#!/usr/bin/env python3
"""Marks seeded changes whose patch.diff no longer applies to /repo HEAD as stale (their last detection result is kept)."""
import json, subprocess, sys
from pathlib import Path
V = Path("/verif/seeded")
head = subprocess.run("git -C /repo log --format=%h -1", shell=True, capture_output=True, text=True).stdout.strip()
for d in sorted(V.iterdir()):
    mp = d / "meta.json"
    if not mp.exists():
        continue
    m = json.loads(mp.read_text())
    ok = subprocess.run(f"git -C /repo apply --check {d}/patch.diff", shell=True, capture_output=True).returncode == 0
    st = m.get("status", "")
    if not ok and not st.startswith("stale"):
        det = m.get("detection", {})
        m["status"] = (f"stale: the patch no longer applies to /repo HEAD {head} (a later fix: commit rewrote the code it patches); "
                       f"at its last run ./check {m.get('property')} " + ("caught it" if det.get("caught") else "result: " + str(det.get("caught"))))
        mp.write_text(json.dumps(m, indent=1, ensure_ascii=False))
        print("stale:", d.name)
    elif ok and st.startswith("stale"):
        print("applies again (status kept):", d.name)
