#!/venv/bin/python
"""Confirm a seeded change and measure whether the checks catch it.

  tools/seeded.py import <src_dir> <seeded_id>      copy patch.diff/demo.py/meta.json into /verif/seeded/<id>/
  tools/seeded.py confirm <seeded_id>               scratch worktree: demo exits 0 clean / 1 mutated, suite passes
  tools/seeded.py detect <seeded_id> [--repo]       run ./check <property> against the mutated tree
                                                    (default: scratch worktree via PINT_REPO; --repo: apply to /repo
                                                     itself and undo straight afterwards)
Worktrees live under /tmp/seedchk and are removed afterwards.
"""
import json
import os
import shutil
import subprocess
import sys
import time
from pathlib import Path

V = Path(__file__).resolve().parent.parent
SEEDED = V / "seeded"
REPO = "/repo"
ENV = dict(os.environ, PYTHONHASHSEED="0", PYTHONDONTWRITEBYTECODE="1",
           XDG_CACHE_HOME="/tmp/seedchk/xdg_cache")   # pint's ':auto:' disk cache is keyed by file CONTENT but stores
#   absolute paths: a test run in a scratch worktree would poison ~/.cache/pint for /repo's own test_diskcache.py


def sh(cmd, **kw):
    p = subprocess.run(cmd, shell=True, stdout=subprocess.PIPE, stderr=subprocess.STDOUT, text=True, **kw)
    return p.returncode, p.stdout


def worktree(name):
    wt = f"/tmp/seedchk/{name}"
    sh(f"git -C {REPO} worktree remove --force {wt}")
    os.makedirs("/tmp/seedchk", exist_ok=True)
    rc, out = sh(f"git -C {REPO} worktree add -q --detach {wt} HEAD")
    assert rc == 0, out
    return wt


def drop(wt):
    sh(f"git -C {REPO} worktree remove --force {wt}")
    shutil.rmtree(wt, ignore_errors=True)


def cmd_import(src, sid):
    d = SEEDED / sid
    d.mkdir(parents=True, exist_ok=True)
    for f in ("patch.diff", "demo.py", "meta.json"):
        shutil.copy(Path(src) / f, d / f)
    print("imported", d)


def cmd_confirm(sid):
    d = SEEDED / sid
    meta = json.loads((d / "meta.json").read_text())
    wt = worktree(sid)
    try:
        rc0, out0 = sh(f"/venv/bin/python {d}/demo.py {wt}", env=ENV)
        rca, outa = sh(f"git -C {wt} apply {d}/patch.diff")
        assert rca == 0, "patch does not apply: " + outa
        rc1, out1 = sh(f"/venv/bin/python {d}/demo.py {wt}", env=ENV)
        ENV2 = dict(ENV, XDG_CACHE_HOME=f"{wt}/.xdg_cache")     # a cache of its own for this worktree
        rct, outt = sh(f"cd {wt} && /venv/bin/python -m pytest -q -p no:cacheprovider -n 6 --timeout=900 pint/testsuite 2>&1 | grep -E '^FAILED|passed|failed' | tail -8", env=ENV2)
        import re
        lines = outt.strip().splitlines()
        tail = lines[-1] if lines else ""
        failed = [l.split()[1] for l in lines if l.startswith("FAILED")]
        rerun = {}
        for nodeid in failed:      # the suite is order-dependent under xdist even on the pristine snapshot
            f = nodeid.split("::")[0]  # (test_multiplication_with_scalar relies on earlier parametrisations): re-run the FILE serially
            if f not in rerun:
                r, o = sh(f"cd {wt} && /venv/bin/python -m pytest -q -p no:cacheprovider --timeout=900 '{f}' 2>&1 | tail -1", env=ENV2)
                rerun[f] = o.strip()
        only_flaky = all(" passed" in v and "failed" not in v.replace("xfailed", "") for v in rerun.values())
        m = re.search(r"(\d+) passed", tail)
        npass = int(m.group(1)) if m else 0
        ok = rc0 == 0 and rc1 == 1 and npass + len(failed) == 2722 and only_flaky
        meta["confirmed"] = {"demo_clean_exit": rc0, "demo_mutated_exit": rc1, "test_suite_tail": tail, "failed_under_xdist_rerun_alone": rerun, "ok": ok,
                             "ran": f"demo.py on a scratch worktree of /repo HEAD {sh(f'git -C {REPO} rev-parse --short HEAD')[1].strip()} clean and with patch.diff applied; full pytest suite with the patch"}
        (d / "meta.json").write_text(json.dumps(meta, indent=1))
        print(sid, "confirmed" if ok else "NOT CONFIRMED", rc0, rc1, tail)
        return ok
    finally:
        drop(wt)


def cmd_detect(sid, on_repo=False):
    d = SEEDED / sid
    meta = json.loads((d / "meta.json").read_text())
    prop = meta["property"]
    t0 = time.time()
    if on_repo:
        rc, out = sh(f"git -C {REPO} apply {d}/patch.diff")
        assert rc == 0, out
        try:
            rc, out = sh(f"cd {V} && ./check {prop} --tier quick", env=ENV)
        finally:
            sh(f"git -C {REPO} checkout -- .")
        where = "/repo (applied, then git checkout -- .)"
    else:
        wt = worktree(sid)
        try:
            rc, out = sh(f"git -C {wt} apply {d}/patch.diff")
            assert rc == 0, out
            rc, out = sh(f"cd {V} && PINT_REPO={wt} ./check {prop} --tier quick", env=ENV)
        finally:
            drop(wt)
        where = "scratch worktree via PINT_REPO"
    viol = [l for l in out.splitlines() if l.startswith("VIOLATION")]
    detail = [l.strip() for l in out.splitlines() if l.startswith("  (")]
    meta["detection"] = {"check": f"./check {prop} --tier quick", "where": where, "exit": rc, "caught": rc == 1 and bool(viol),
                         "violation_lines": viol[:6], "what": detail[:6], "concrete_input": any("no-failing-input-found" not in v for v in viol),
                         "wall_s": round(time.time() - t0, 1)}
    (d / "meta.json").write_text(json.dumps(meta, indent=1))
    print(sid, prop, "CAUGHT" if meta["detection"]["caught"] else "MISSED", "exit", rc, detail[:2])
    return meta["detection"]["caught"]


if __name__ == "__main__":
    a = sys.argv[1:]
    if a[0] == "import":
        cmd_import(a[1], a[2])
    elif a[0] == "confirm":
        sys.exit(0 if cmd_confirm(a[1]) else 1)
    elif a[0] == "detect":
        sys.exit(0 if cmd_detect(a[1], "--repo" in a) else 1)
