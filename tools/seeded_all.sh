#!/bin/bash
# Final pass over every seeded change: confirm in a scratch worktree (demo 0/1, suite passes), then apply
# the patch to /repo itself, run the property's quick check, and undo it straight afterwards.
cd "$(dirname "$0")/.."
log=${1:-/tmp/w/seeded_final.log}
: > "$log"
for d in seeded/*/; do
  id=$(basename "$d")
  if python3 -c "import json,sys; sys.exit(0 if json.load(open('$d/meta.json')).get('status','').startswith('stale') else 1)"; then
    echo "$id STALE" >> "$log"; continue
  fi
  if ! git -C /repo apply --check "$(pwd)/$d/patch.diff" 2>/dev/null; then echo "$id DOES-NOT-APPLY" >> "$log"; continue; fi
  tools/seeded.py confirm "$id" >> "$log" 2>&1 || { echo "$id NOT-CONFIRMED" >> "$log"; }
  tools/seeded.py detect "$id" --repo >> "$log" 2>&1
  git -C /repo checkout -- . ; git -C /repo status --short | grep -v '^??' >> "$log"
done
echo DONE >> "$log"
