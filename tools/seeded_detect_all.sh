#!/bin/bash
# Re-runs the detection of every non-stale seeded change against a scratch worktree of /repo HEAD
# (PINT_REPO mode, 3 at a time; see DESIGN §14 on concurrent checkouts). Usage: tools/seeded_detect_all.sh [log]
cd "$(dirname "$0")/.."
export log=${1:-build/seeded_detect_all.log}
: > "$log"
one() { id=$1
  if python3 -c "import json,sys; sys.exit(0 if json.load(open('seeded/$id/meta.json')).get('status','').startswith('stale') else 1)"; then echo "$id STALE" >> "$log"; return; fi
  if ! git -C /repo apply --check "$(pwd)/seeded/$id/patch.diff" 2>/dev/null; then echo "$id DOES-NOT-APPLY" >> "$log"; return; fi
  tools/seeded.py detect "$id" 2>&1 | tail -1 | cut -c1-260 >> "$log"; }
export -f one
ls seeded | grep -E "${ONLY:-.}" | grep -vE "${SKIP:-^$}" | xargs -P 3 -I{} bash -c 'one {}'
echo DONE >> "$log"
