#!/usr/bin/env python3
"""Prints the markdown table of DESIGN.md §13 from seeded/*/meta.json."""
import glob, json
print("| id | property | what the change does / needs to manifest | confirmed | caught by `./check` | how |")
print("|----|----------|------------------------------------------|-----------|---------------------|-----|")
for f in sorted(glob.glob("/verif/seeded/*/meta.json")):
    d = json.load(open(f)); sid = f.split("/")[-2]
    c = d.get("confirmed", {}); det = d.get("detection", {})
    if d.get("status", "").startswith("stale"):
        how = d["status"][:150]
        print(f"| {sid} | {d['property']} | {d.get('summary','')[:110]} | – | – | {how} |")
        continue
    what = (det.get("what") or [""])[0][:120].replace("|", "/")
    kind = "concrete failing input" if det.get("concrete_input") else ("broken correspondence (no-failing-input-found)" if det.get("caught") else "")
    print(f"| {sid} | {d['property']} | {d.get('summary','')[:110]} — needs: {d.get('needs_to_manifest','')[:110]} | {'yes' if c.get('ok') else 'no'} | {'CAUGHT' if det.get('caught') else ('MISSED' if det else 'not run')} | {kind}: {what} |")
