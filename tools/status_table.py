#!/usr/bin/env python3
"""Prints the §9.0 status table of DESIGN.md from build/thorough/Cnn.json (copies of the thorough evidence) and known_findings/."""
import json, os, re
V = "/verif"
print("| property | theorems (all discharged) | thorough evaluations | thorough wall | findings repaired | findings known |")
print("|---|---|---|---|---|---|")
def ids(l):
    return ", ".join(sorted(l, key=lambda x: (int(re.sub(r"\D", "", x) or 0), x))) or "–"
for i in range(1, 21):
    p = f"C{i:02d}"
    try:
        e = json.load(open(f"{V}/build/thorough/{p}.json"))
    except Exception:
        e = json.load(open(f"{V}/evidence/{p}.json"))
    c = e["coverage"]
    kf = json.load(open(f"{V}/known_findings/{p}.json"))["findings"] if os.path.exists(f"{V}/known_findings/{p}.json") else []
    fixed = {f["id"].split("-")[0].split(":")[0] for f in kf if f["status"] == "fixed"}
    known = {f["id"].split("-")[0].split(":")[0] for f in kf if f["status"] == "known"}
    ok = "" if c["obligations"] == c["discharged"] else f" (!! {c['discharged']} discharged)"
    print(f"| {p} | {c['obligations']}{ok} | {c['evaluations']} ({e['tier']}) | {e['wall_s']:.0f} s | {ids(fixed)} | {ids(known)} |")
