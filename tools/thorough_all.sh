#!/bin/bash
# Runs every thorough tier on the unchanged /repo (3 at a time; builds are serialised by build/.lock),
# keeps a copy of each evidence file under build/thorough/, then re-runs every quick tier so that
# evidence/ ends with the quick runs of the final tree.  Usage: tools/thorough_all.sh [log]
cd "$(dirname "$0")/.."
export log=${1:-build/thorough_all.log}
mkdir -p build/thorough
: > "$log"
run() { p=$1; s=$(date +%s); ./check $p --tier thorough > build/thorough/$p.out 2>&1; rc=$?; cp evidence/$p.json build/thorough/$p.json
        echo "$p rc=$rc wall=$(( $(date +%s) - s ))s $(grep -c '^VIOLATION' build/thorough/$p.out) viol; $(tail -1 build/thorough/$p.out)" >> "$log"; }
export -f run
printf 'C%02d\n' $(seq 1 20) | xargs -P 3 -I{} bash -c 'run {}'
echo THOROUGH-DONE >> "$log"
