#!/usr/bin/env python3
"""Regenerates the status table (§9.0), the findings table (§10) and the seeded table (§13) of DESIGN.md between their markers."""
import re, subprocess
p = "/verif/DESIGN.md"
s = open(p).read()
for name, cmd in (("FINDINGS", "/verif/tools/findings_table.py"), ("SEEDED", "/verif/tools/seeded_table.py"), ("STATUS", "/verif/tools/status_table.py")):
    out = subprocess.run([cmd], capture_output=True, text=True).stdout
    s = re.sub(rf"<!-- {name}-TABLE-BEGIN -->.*?<!-- {name}-TABLE-END -->",
               lambda m: f"<!-- {name}-TABLE-BEGIN -->\n{out}<!-- {name}-TABLE-END -->", s, flags=re.S)
open(p, "w").write(s)
print("DESIGN.md tables updated")
